import LK.Model.Persist
namespace LK.Persist

def old1 : DSd := { tag := 1, tables := ["item", "user", "rating"] }
def new2 : DSd := { tag := 2, tables := ["item", "user", "rating"] }

/-- sanity: the model does distinguish mixtures — overwriting in place can load old tables under the new schema -/
example : load (crash (some (filesOf old1)) (saveInPlace new2) 2 false) = .ds new2 [2, 1, 1] := by decide
/-- …whereas remove-then-write never does, e.g. at the same point -/
example : load (crash (some (filesOf old1))
    (saveSteps [.summary, .table "rating", .schema, .table "item", .table "user"] new2) 9 false) = .fail := by decide

/-! ### removal phase -/

theorem foldl_rm (names : List FName) (fs : Files) :
    (names.map Step.rm).foldl apply (some fs) = some (fs.filter (fun e => decide (e.1 ∉ names))) := by
  induction names generalizing fs with
  | nil =>
    show some fs = some (fs.filter _)
    congr 1
    exact (List.filter_eq_self.mpr (by intro a _; simp)).symm
  | cons n ns ih =>
    simp only [List.map_cons, List.foldl_cons, apply]
    rw [ih, List.filter_filter]
    congr 1
    apply List.filter_congr
    intro e _
    by_cases h1 : e.1 = n
    · simp [h1]
    · by_cases h2 : e.1 ∈ ns <;> simp [h1, h2]

theorem lookup_filter (fs : Files) (p : FName → Bool) (n : FName) :
    lookup (fs.filter (fun e => p e.1)) n = if p n then lookup fs n else none := by
  induction fs with
  | nil => simp [lookup]
  | cons e fs ih =>
    obtain ⟨m, c⟩ := e
    by_cases hmn : m = n
    · subst hmn
      by_cases hp : p m
      · simp [List.filter_cons, hp, lookup]
      · have hp' : p m = false := by simpa using hp
        simp only [List.filter_cons, hp']
        simp only [Bool.false_eq_true, if_false]
        rw [ih]; simp [hp']
    · by_cases hpe : p m
      · simp only [List.filter_cons, hpe, if_true, lookup, hmn, if_false, ih]
      · have hpe' : p m = false := by simpa using hpe
        simp only [List.filter_cons, hpe', lookup, hmn, if_false]
        exact ih

theorem lookup_append (fs gs : Files) (n : FName) :
    lookup (fs ++ gs) n = match lookup fs n with | some c => some c | none => lookup gs n := by
  induction fs with
  | nil => simp [lookup]
  | cons e fs ih =>
    obtain ⟨m, c⟩ := e
    by_cases hmn : m = n
    · simp [lookup, hmn]
    · simp [lookup, hmn, ih]

theorem lookup_tables (tag : Nat) (ts : List TName) (t : TName) :
    lookup (ts.map (fun t => (FName.table t, Content.table tag))) (.table t)
      = if t ∈ ts then some (.table tag) else none := by
  induction ts with
  | nil => simp [lookup]
  | cons a as ih =>
    by_cases hat : a = t
    · subst hat; simp [lookup]
    · have : ¬ (FName.table a = FName.table t) := by intro h; injection h with h; exact hat h
      have hta : ¬ t = a := fun h => hat h.symm
      simp [lookup, this, ih, hta]

theorem lookup_tables_other (tag : Nat) (ts : List TName) (n : FName) (hn : ∀ t, n ≠ .table t) :
    lookup (ts.map (fun t => (FName.table t, Content.table tag))) n = none := by
  induction ts with
  | nil => simp [lookup]
  | cons a as ih =>
    have : ¬ (FName.table a = n) := fun h => hn a h.symm
    simp [lookup, this, ih]

theorem lookup_filesOf_schema (d : DSd) : lookup (filesOf d) .schema = some (.schema d) := by
  simp [lookup, filesOf]

theorem lookup_filesOf_table (d : DSd) (t : TName) (ht : t ∈ d.tables) :
    lookup (filesOf d) (.table t) = some (.table d.tag) := by
  unfold filesOf
  have h0 : ¬ (FName.schema = FName.table t) := by intro h; cases h
  simp only [lookup, List.cons_append, h0, if_false, lookup_append, lookup_tables, ht, if_true]

/-- **removal phase:** while old entries are being removed the directory either fails to load or
    loads as exactly the old dataset — the latter only if no schema/table file is gone yet -/
theorem removal_phase_safe (old : DSd) (removed : List FName) :
    load (some ((filesOf old).filter (fun e => decide (e.1 ∉ removed)))) = .fail ∨
    (isExactly old (load (some ((filesOf old).filter (fun e => decide (e.1 ∉ removed))))) ∧
      ∀ n ∈ removed, n ∈ (filesOf old).map (·.1) → n = .summary) := by
  have hlk : ∀ n, lookup ((filesOf old).filter (fun e => decide (e.1 ∉ removed))) n
      = if decide (n ∉ removed) then lookup (filesOf old) n else none :=
    fun n => lookup_filter (filesOf old) (fun n => decide (n ∉ removed)) n
  unfold load
  simp only [hlk]
  by_cases hs : FName.schema ∈ removed
  · left; simp [hs]
  · simp only [hs, not_false_eq_true, decide_true, if_true, lookup_filesOf_schema]
    by_cases hall : ∀ t ∈ old.tables, FName.table t ∉ removed
    · right
      have htag : ∀ t ∈ old.tables, tableTag ((filesOf old).filter (fun e => decide (e.1 ∉ removed))) t = some old.tag := by
        intro t ht
        unfold tableTag
        rw [hlk]
        simp [hall t ht, lookup_filesOf_table old t ht]
      have hmap : old.tables.map (tableTag ((filesOf old).filter (fun e => decide (e.1 ∉ removed))))
          = old.tables.map (fun _ => some old.tag) := List.map_congr_left htag
      simp only [hmap]
      have hal : (old.tables.map (fun _ => some old.tag)).all Option.isSome = true := by simp
      simp only [hal, if_true]
      refine ⟨⟨rfl, ?_⟩, ?_⟩
      · intro g hg
        simp only [List.mem_filterMap, List.mem_map, id] at hg
        obtain ⟨x, ⟨_, _, rfl⟩, hx⟩ := hg
        simpa using hx.symm
      · intro n hn hmem
        simp only [filesOf, List.map_cons, List.map_append, List.map_map, List.mem_cons, List.mem_append,
          List.mem_map, List.mem_singleton, Function.comp] at hmem
        rcases hmem with (h | ⟨t, ht, h⟩) | h
        · subst h; exact absurd hn hs
        · subst h; exact absurd hn (hall t ht)
        · simpa using h
    · left
      have hne : ¬ ((old.tables.map (tableTag ((filesOf old).filter (fun e => decide (e.1 ∉ removed))))).all Option.isSome = true) := by
        intro h
        apply hall
        intro t ht hrem
        have := List.all_eq_true.mp h (tableTag _ t) (List.mem_map.mpr ⟨t, ht, rfl⟩)
        unfold tableTag at this
        rw [hlk] at this
        simp [hrem] at this
      have hne' : (old.tables.map (tableTag ((filesOf old).filter (fun e => decide (e.1 ∉ removed))))).all Option.isSome = false := by
        simpa using hne
      simp only [hne']
      simp

/-! ### write phase -/

/-- a directory holding only complete files of `d` and truncated files -/
def OnlyFrom (d : DSd) (fs : Files) : Prop := ∀ e ∈ fs, e.2 = .trunc ∨ e ∈ filesOf d

theorem lookup_mem (fs : Files) (n : FName) (c : Content) (h : lookup fs n = some c) : (n, c) ∈ fs := by
  induction fs with
  | nil => simp [lookup] at h
  | cons e fs ih =>
    obtain ⟨m, c'⟩ := e
    by_cases hmn : m = n
    · subst hmn; simp [lookup] at h; subst h; exact List.mem_cons_self
    · simp only [lookup, hmn, if_false] at h
      exact List.mem_cons_of_mem _ (ih h)

theorem filesOf_schema_content (d : DSd) (c : Content) (h : (FName.schema, c) ∈ filesOf d) : c = .schema d := by
  simp only [filesOf, List.cons_append, List.mem_cons, List.mem_append, List.mem_map, List.mem_singleton, Prod.mk.injEq] at h
  rcases h with ⟨_, h⟩ | ⟨t, _, h, _⟩ | ⟨h, _⟩ | h
  · exact h
  · cases h
  · cases h
  · simp at h

theorem filesOf_table_content (d : DSd) (t : TName) (c : Content) (h : (FName.table t, c) ∈ filesOf d) : c = .table d.tag := by
  simp only [filesOf, List.cons_append, List.mem_cons, List.mem_append, List.mem_map, List.mem_singleton, Prod.mk.injEq] at h
  rcases h with ⟨h, _⟩ | ⟨t', _, _, h⟩ | ⟨h, _⟩ | h
  · cases h
  · exact h.symm
  · cases h
  · simp at h

/-- only-new-or-truncated directories never load as anything but the new dataset -/
theorem onlyFrom_load (d : DSd) (fs : Files) (h : OnlyFrom d fs) :
    load (some fs) = .fail ∨ isExactly d (load (some fs)) := by
  unfold load
  simp only
  cases hs : lookup fs .schema with
  | none => left; rfl
  | some c =>
    have hm := h _ (lookup_mem fs _ _ hs)
    rcases hm with htr | hin
    · simp only at htr; subst htr; left; rfl
    · have := filesOf_schema_content d c hin
      subst this
      simp only
      split
      · right
        refine ⟨rfl, ?_⟩
        intro g hg
        simp only [List.mem_filterMap, List.mem_map, id] at hg
        obtain ⟨x, ⟨t, _, rfl⟩, hx⟩ := hg
        unfold tableTag at hx
        split at hx
        · rename_i g' hl
          have hm2 := h _ (lookup_mem fs _ _ hl)
          rcases hm2 with h2 | h2
          · simp at h2
          · have := filesOf_table_content d t _ h2
            simp only [Content.table.injEq] at this
            simp at hx; omega
        · simp at hx
      · left; rfl

theorem onlyFrom_write (d : DSd) (fs : Files) (n : FName) (c : Content) (h : OnlyFrom d fs)
    (hc : c = .trunc ∨ (n, c) ∈ filesOf d) : OnlyFrom d ((n, c) :: fs.filter (fun e => !(e.1 == n))) := by
  intro e he
  rcases List.mem_cons.mp he with rfl | he
  · exact hc
  · exact h e (List.mem_filter.mp he).1

/-- invariant of the write phase -/
def WriteInv (d : DSd) : Dir → Prop
  | none => True
  | some fs => OnlyFrom d fs

theorem writeInv_step (d : DSd) (dir : Dir) (st : Step) (h : WriteInv d dir)
    (hst : st = .mkdir ∨ ∃ n c, st = .write n c ∧ (c = .trunc ∨ (n, c) ∈ filesOf d)) :
    WriteInv d (apply dir st) := by
  rcases hst with rfl | ⟨n, c, rfl, hc⟩
  · cases dir with
    | none => intro e he; simp at he
    | some fs => exact h
  · cases dir with
    | none => exact h
    | some fs => exact onlyFrom_write d fs n c h hc

theorem writeInv_load (d : DSd) (dir : Dir) (h : WriteInv d dir) :
    load dir = .fail ∨ isExactly d (load dir) := by
  cases dir with
  | none => left; rfl
  | some fs => exact onlyFrom_load d fs h

theorem writeInv_foldl (d : DSd) (sts : List Step) (dir : Dir) (h : WriteInv d dir)
    (hs : ∀ st ∈ sts, st = .mkdir ∨ ∃ n c, st = .write n c ∧ (c = .trunc ∨ (n, c) ∈ filesOf d)) :
    WriteInv d (sts.foldl apply dir) := by
  induction sts generalizing dir with
  | nil => exact h
  | cons st sts ih =>
    exact ih _ (writeInv_step d dir st h (hs st List.mem_cons_self)) (fun s hs' => hs s (List.mem_cons_of_mem _ hs'))

theorem writeSteps_ok (d : DSd) : ∀ st ∈ Step.mkdir :: writeSteps d,
    st = .mkdir ∨ ∃ n c, st = .write n c ∧ (c = .trunc ∨ (n, c) ∈ filesOf d) := by
  intro st hst
  rcases List.mem_cons.mp hst with rfl | hst
  · exact Or.inl rfl
  · right
    simp only [writeSteps, List.mem_map] at hst
    obtain ⟨e, he, rfl⟩ := hst
    exact ⟨e.1, e.2, rfl, Or.inr he⟩

theorem writeInv_torn (d : DSd) (dir : Dir) (st : Option Step) (h : WriteInv d dir) :
    WriteInv d (match st with | some (.write n _) => apply dir (.write n .trunc) | _ => dir) := by
  cases st with
  | none => exact h
  | some s =>
    cases s with
    | write n c => exact writeInv_step d dir _ h (Or.inr ⟨n, .trunc, rfl, Or.inl rfl⟩)
    | rm _ => exact h
    | rmdir => exact h
    | mkdir => exact h

/-- **C15 (crash safety of `DataContainer.save` over an existing directory):** whatever the order in
    which the old entries are removed, wherever the save is interrupted, and whether or not the write
    in flight was torn, the directory fails to load, loads as exactly the new dataset, or loads as
    exactly the old dataset — the last only while no schema/table file of the old dataset is gone. -/
theorem save_crash_safe (old new : DSd) (delOrder : List FName) (k : Nat) (torn : Bool) :
    load (crash (some (filesOf old)) (saveSteps delOrder new) k torn) = .fail ∨
    isExactly new (load (crash (some (filesOf old)) (saveSteps delOrder new) k torn)) ∨
    (isExactly old (load (crash (some (filesOf old)) (saveSteps delOrder new) k torn)) ∧
      ∀ n ∈ delOrder.take k, n ∈ (filesOf old).map (·.1) → n = .summary) := by
  by_cases hk : k ≤ delOrder.length
  · -- still removing
    have htake : (saveSteps delOrder new).take k = (delOrder.take k).map Step.rm := by
      unfold saveSteps
      rw [List.append_assoc, List.take_append_of_le_length (by simpa using hk), List.map_take]
    have hget : ∀ n c, (saveSteps delOrder new)[k]? ≠ some (Step.write n c) := by
      intro n c
      unfold saveSteps
      rw [List.append_assoc]
      by_cases hlt : k < delOrder.length
      · rw [List.getElem?_append_left (by simpa using hlt)]
        simp [List.getElem?_map]
      · have : k = delOrder.length := by omega
        subst this
        rw [List.getElem?_append_right (by simp)]
        simp
    have hstate : crash (some (filesOf old)) (saveSteps delOrder new) k torn
        = some ((filesOf old).filter (fun e => decide (e.1 ∉ delOrder.take k))) := by
      unfold crash
      simp only [htake, foldl_rm]
      cases torn with
      | false => rfl
      | true =>
        simp only [if_true]
    rw [hstate]
    rcases removal_phase_safe old (delOrder.take k) with h | h
    · exact Or.inl h
    · exact Or.inr (Or.inr h)
  · -- removal finished: only new (or torn) files can be present
    have hk' : delOrder.length < k := by omega
    have hinv : WriteInv new (crash (some (filesOf old)) (saveSteps delOrder new) k torn) := by
      unfold crash
      have hsplit : (saveSteps delOrder new).take k
          = delOrder.map Step.rm ++ (Step.rmdir :: (Step.mkdir :: writeSteps new).take (k - delOrder.length - 1)) := by
        unfold saveSteps
        rw [List.append_assoc, List.take_append]
        have h1 : (delOrder.map Step.rm).take k = delOrder.map Step.rm :=
          List.take_of_length_le (by simp; omega)
        rw [h1]
        congr 1
        simp only [List.length_map]
        have : k - delOrder.length = (k - delOrder.length - 1) + 1 := by omega
        rw [this]
        simp [List.take_succ_cons]
      have hfold : ((saveSteps delOrder new).take k).foldl apply (some (filesOf old))
          = ((Step.mkdir :: writeSteps new).take (k - delOrder.length - 1)).foldl apply none := by
        rw [hsplit, List.foldl_append, foldl_rm, List.foldl_cons]
        rfl
      have hbase : WriteInv new (((Step.mkdir :: writeSteps new).take (k - delOrder.length - 1)).foldl apply none) :=
        writeInv_foldl new _ none trivial (fun st hst => writeSteps_ok new st (List.mem_of_mem_take hst))
      simp only [hfold]
      cases torn with
      | false => exact hbase
      | true =>
        simp only [if_true]
        exact writeInv_torn new _ _ hbase
    rcases writeInv_load new _ hinv with h | h
    · exact Or.inl h
    · exact Or.inr (Or.inl h)

/-- the same for a save into a fresh path -/
theorem save_fresh_crash_safe (new : DSd) (k : Nat) (torn : Bool) :
    load (crash none (saveFresh new) k torn) = .fail ∨ isExactly new (load (crash none (saveFresh new) k torn)) := by
  have hinv : WriteInv new (crash none (saveFresh new) k torn) := by
    unfold crash saveFresh
    have hbase : WriteInv new (((Step.mkdir :: writeSteps new).take k).foldl apply none) :=
      writeInv_foldl new _ none trivial (fun st hst => writeSteps_ok new st (List.mem_of_mem_take hst))
    cases torn with
    | false => exact hbase
    | true => simp only [if_true]; exact writeInv_torn new _ _ hbase
  exact writeInv_load new _ hinv

#print axioms save_crash_safe
#print axioms save_fresh_crash_safe
#print axioms onlyFrom_load
#print axioms removal_phase_safe
end LK.Persist
