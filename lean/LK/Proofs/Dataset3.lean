import LK.Proofs.Dataset2
/-! C01 — filters only remove (and remove exactly what they say); no (user, item) pair is ever stored twice, whatever the history. -/
namespace LK.DS
variable {ι β : Type} [DecidableEq ι]

/-- `hasDupPair` in terms of the pair list -/
theorem hasDupPair_false_iff (rs : List (Rec β)) :
    hasDupPair rs = false ↔ rs.Pairwise (fun r s => ¬ (s.u = r.u ∧ s.i = r.i)) := by
  induction rs with
  | nil => simp [hasDupPair]
  | cons r rs ih =>
    simp only [hasDupPair, Bool.or_eq_false_iff, List.pairwise_cons, ih]
    constructor
    · rintro ⟨h1, h2⟩
      refine ⟨?_, h2⟩
      intro s hs hc
      have := List.any_eq_false.mp h1 s hs
      simp [hc.1, hc.2] at this
    · rintro ⟨h1, h2⟩
      refine ⟨?_, h2⟩
      rw [List.any_eq_false]
      intro s hs
      have := h1 s hs
      cases hb : (s.u == r.u && s.i == r.i) with
      | false => simp
      | true =>
        simp only [Bool.and_eq_true, beq_iff_eq] at hb
        exact absurd hb this

theorem hasDupPair_sublist (rs rs' : List (Rec β)) (hs : rs'.Sublist rs) (h : hasDupPair rs = false) : hasDupPair rs' = false := by
  rw [hasDupPair_false_iff] at h ⊢
  exact h.sublist hs

/-- the three filtering operations never add a record and never touch the identifier ↔ number map -/
theorem filters_only_remove (le : ι → ι → Bool) (tm : β → Option Int) (b : Builder ι β) (op : Op ι β)
    (hop : (∃ lo hi, op = .filterTime lo hi) ∨ (∃ t, op = .remove t) ∨ op = .clear) :
    ((step le tm b op).1.recs).Sublist b.recs ∧ (step le tm b op).1.users = b.users ∧ (step le tm b op).1.items = b.items ∧
      (step le tm b op).2 = none := by
  rcases hop with ⟨lo, hi, rfl⟩ | ⟨t, rfl⟩ | rfl
  · by_cases hc : (lo.isNone && hi.isNone) = true
    · have : step le tm b (.filterTime lo hi) = (b, none) := by simp only [step, hc, if_true]
      rw [this]; exact ⟨List.Sublist.refl _, rfl, rfl, rfl⟩
    · have hc' : (lo.isNone && hi.isNone) = false := by
        cases hcb : (lo.isNone && hi.isNone) with
        | false => rfl
        | true => exact absurd hcb hc
      refine ⟨?_, ?_, ?_, ?_⟩ <;> simp only [step, hc', Bool.false_eq_true, if_false]
      exact List.filter_sublist
  · refine ⟨?_, ?_, ?_, ?_⟩ <;> simp only [step]
    exact List.filter_sublist
  · refine ⟨?_, ?_, ?_, ?_⟩ <;> simp only [step]
    exact List.nil_sublist _

/-- **C01 (time window):** with at least one bound given, exactly the records with `lo ≤ t < hi` stay (records without a time go) -/
theorem filterTime_spec (le : ι → ι → Bool) (tm : β → Option Int) (b : Builder ι β) (lo hi : Option Int)
    (hb : ¬ (lo = none ∧ hi = none)) (r : Rec β) :
    r ∈ (step le tm b (.filterTime lo hi)).1.recs ↔
      r ∈ b.recs ∧ ∃ t, tm r.a = some t ∧ (∀ l, lo = some l → l ≤ t) ∧ (∀ h, hi = some h → t < h) := by
  have hcond : (lo.isNone && hi.isNone) = false := by
    cases lo <;> cases hi <;> simp at hb ⊢
  simp only [step, hcond, Bool.false_eq_true, if_false, List.mem_filter]
  constructor
  · rintro ⟨hm, hk⟩
    refine ⟨hm, ?_⟩
    cases ht : tm r.a with
    | none => simp [ht] at hk
    | some t =>
      refine ⟨t, rfl, ?_, ?_⟩
      · intro l hl; subst hl; simp [ht] at hk; exact hk.1
      · intro h hh; subst hh; simp [ht] at hk; exact hk.2
  · rintro ⟨hm, t, ht, h1, h2⟩
    refine ⟨hm, ?_⟩
    simp only [ht, Bool.and_eq_true]
    constructor
    · cases lo with
      | none => rfl
      | some l => simpa using h1 l rfl
    · cases hi with
      | none => rfl
      | some h => simpa using h2 h rfl

/-- **C01 (no record duplicated):** whatever the operation, if no (user, item) pair was stored twice before, none is afterwards -/
theorem step_no_dup (le : ι → ι → Bool) (tm : β → Option Int) (b : Builder ι β) (op : Op ι β)
    (h : hasDupPair b.recs = false) : hasDupPair (step le tm b op).1.recs = false := by
  cases op with
  | addEntities c ids dup =>
    cases c <;> simp only [step] <;> split <;> exact h
  | addInteractions rows missing =>
    simp only [step]
    repeat' split
    all_goals first | exact h | (rename_i hnd; simpa using hnd)
  | filterTime lo hi => exact hasDupPair_sublist _ _ (filters_only_remove le tm b _ (Or.inl ⟨lo, hi, rfl⟩)).1 h
  | remove t => exact hasDupPair_sublist _ _ (filters_only_remove le tm b _ (Or.inr (Or.inl ⟨t, rfl⟩))).1 h
  | clear => simp [step, hasDupPair]

/-- … hence for every history from an empty builder -/
theorem run_no_dup (le : ι → ι → Bool) (tm : β → Option Int) (ops : List (Op ι β)) (b : Builder ι β)
    (h : hasDupPair b.recs = false) : hasDupPair (run le tm b ops).recs = false := by
  induction ops generalizing b with
  | nil => exact h
  | cons op ops ih => exact ih _ (step_no_dup le tm b op h)

#print axioms filterTime_spec
#print axioms run_no_dup
end LK.DS
