import LK.Model.Attr
import LK.Proofs.Csr
namespace LK.Attr

/-- the defect as it stands: non-ascending entity order misplaces values -/
example : addScalar .asIs 3 [(2, "c"), (0, "a")] = [some "c", none, some "a"] := by decide
example : (addScalar .asIs 3 [(2, "c"), (0, "a")])[0]? ≠ some (supplied [(2, "c"), (0, "a")] 0) := by decide
example : addScalar .repaired 3 [(2, "c"), (0, "a")] = [some "a", none, some "c"] := by decide

theorem rwm_length {α} (m : List Bool) (vs : List α) : (replaceWithMask m vs).length = m.length := by
  induction m generalizing vs with
  | nil => rfl
  | cons b m ih => cases b <;> cases vs <;> simp [replaceWithMask, ih]

/-- ascending row numbers: the mask-order fill puts every value on its own row -/
theorem fill_sorted {α} (len : Nat) : ∀ (k : Nat) (ps : List (Nat × α)),
    (ps.map (·.1)).Pairwise (· < ·) → (∀ x ∈ ps.map (·.1), k ≤ x) →
    ∀ j, j < len →
      (replaceWithMask (maskFrom k len (ps.map (·.1))) (ps.map (·.2)))[j]? = some (supplied ps (k + j)) := by
  induction len with
  | zero => intro k ps _ _ j hj; omega
  | succ len ih =>
    intro k ps hs hk j hj
    match ps with
    | [] =>
      simp only [List.map_nil, maskFrom, List.range'_succ, List.map_cons, List.not_mem_nil, decide_false]
      cases j with
      | zero => simp [replaceWithMask, supplied]
      | succ j =>
        simp only [replaceWithMask, List.getElem?_cons_succ]
        have := ih (k+1) ([] : List (Nat × α)) List.Pairwise.nil (by simp) j (by omega)
        simp only [List.map_nil, maskFrom, List.not_mem_nil, decide_false] at this
        rw [this]; simp [supplied]
    | (n, v) :: ps =>
      simp only [List.map_cons] at hs hk ⊢
      have hns : (ps.map (·.1)).Pairwise (· < ·) := (List.pairwise_cons.mp hs).2
      have hlt : ∀ x ∈ ps.map (·.1), n < x := (List.pairwise_cons.mp hs).1
      have hkn : k ≤ n := hk n (by simp)
      by_cases hnk : n = k
      · subst hnk
        have hmask : maskFrom n (len+1) (n :: ps.map (·.1)) = true :: maskFrom (n+1) len (ps.map (·.1)) := by
          simp only [maskFrom, List.range'_succ, List.map_cons, List.mem_cons, true_or, decide_true]
          congr 1
          apply List.map_congr_left
          intro i hi
          have : n + 1 ≤ i := by
            rcases List.mem_range'.mp hi with ⟨t, _, rfl⟩; omega
          have : i ≠ n := by omega
          simp [this]
        rw [hmask]
        cases j with
        | zero => simp [replaceWithMask, supplied]
        | succ j =>
          simp only [replaceWithMask, List.getElem?_cons_succ]
          have := ih (n+1) ps hns (fun x hx => by have := hlt x hx; omega) j (by omega)
          rw [this]
          have hne : (n == n + (j+1)) = false := by simp
          have e : n + 1 + j = n + (j + 1) := by omega
          simp [supplied, hne, e]
      · have hkltn : k < n := by omega
        have hknot : k ∉ (n :: ps.map (·.1)) := by
          intro h; rcases List.mem_cons.mp h with h | h
          · omega
          · have := hlt k h; omega
        have hmask : maskFrom k (len+1) (n :: ps.map (·.1)) = false :: maskFrom (k+1) len (n :: ps.map (·.1)) := by
          simp only [maskFrom, List.range'_succ, List.map_cons]
          congr 1
          simp [hknot]
        rw [hmask]
        cases j with
        | zero =>
          simp only [replaceWithMask, List.getElem?_cons_zero, supplied, Nat.add_zero]
          congr 1
          symm
          simp only [Option.map_eq_none_iff, List.find?_eq_none]
          intro p hp
          simp only [List.mem_cons] at hp
          rcases hp with rfl | hp
          · simp; omega
          · have : p.1 ∈ ps.map (·.1) := List.mem_map.mpr ⟨p, hp, rfl⟩
            have := hlt p.1 this
            simp; omega
        | succ j =>
          simp only [replaceWithMask, List.getElem?_cons_succ]
          have := ih (k+1) ((n, v) :: ps) (by simpa using hs)
            (fun x hx => by
              simp only [List.map_cons, List.mem_cons] at hx
              rcases hx with h | h
              · omega
              · have := hlt x h; omega) j (by omega)
          simp only [List.map_cons] at this
          rw [this]; congr 2; omega

/-- with distinct keys, lookup by key is membership -/
theorem supplied_eq_some_iff {α} (ps : List (Nat × α)) (hnd : (ps.map (·.1)).Nodup) (r : Nat) (v : α) :
    supplied ps r = some v ↔ (r, v) ∈ ps := by
  induction ps with
  | nil => simp [supplied]
  | cons p ps ih =>
    obtain ⟨k, w⟩ := p
    simp only [List.map_cons, List.nodup_cons] at hnd
    obtain ⟨hk, hnd'⟩ := hnd
    by_cases hkr : k = r
    · subst hkr
      simp only [supplied, List.find?_cons, beq_self_eq_true, Option.map_some, Option.some.injEq,
        List.mem_cons, Prod.mk.injEq, true_and]
      constructor
      · intro h; exact Or.inl h.symm
      · intro h
        rcases h with h | h
        · exact h.symm
        · exact absurd (List.mem_map.mpr ⟨(k, v), h, rfl⟩) hk
    · have hne : (k == r) = false := by simpa using hkr
      have hne' : ¬ (r = k) := fun h => hkr h.symm
      simp only [supplied, List.find?_cons, hne, List.mem_cons, Prod.mk.injEq, hne', false_and, false_or]
      exact ih hnd'

theorem supplied_eq_none_iff {α} (ps : List (Nat × α)) (r : Nat) :
    supplied ps r = none ↔ r ∉ ps.map (·.1) := by
  simp only [supplied, Option.map_eq_none_iff, List.find?_eq_none, List.mem_map, not_exists, not_and]
  constructor
  · intro h x hx hxr; exact h x hx (by simp [hxr])
  · intro h x hx; simpa using h x hx

theorem supplied_perm {α} (ps qs : List (Nat × α)) (hp : qs.Perm ps) (hnd : (ps.map (·.1)).Nodup) (r : Nat) :
    supplied qs r = supplied ps r := by
  have hndq : (qs.map (·.1)).Nodup := (hp.map _).nodup_iff.mpr hnd
  cases h : supplied ps r with
  | none =>
    rw [supplied_eq_none_iff] at h ⊢
    intro hq; exact h ((hp.map _).mem_iff.mp hq)
  | some v =>
    rw [supplied_eq_some_iff _ hnd] at h
    rw [supplied_eq_some_iff _ hndq]
    exact hp.mem_iff.mpr h

theorem sortPairs_perm {α} (ps : List (Nat × α)) : (sortPairs ps).Perm ps := sortBy_perm _ _

theorem sortPairs_strict {α} (ps : List (Nat × α)) (hnd : (ps.map (·.1)).Nodup) :
    ((sortPairs ps).map (·.1)).Pairwise (· < ·) := by
  have hle : (sortPairs ps).Pairwise (fun a b => decide (a.1 ≤ b.1) = true) :=
    sortBy_pairwise _ (fun a b c h1 h2 => by simp at h1 h2 ⊢; omega)
      (fun a b => by simp; omega) ps
  have hndq : ((sortPairs ps).map (·.1)).Nodup := ((sortPairs_perm ps).map _).nodup_iff.mpr hnd
  rw [List.pairwise_map]
  rw [List.Nodup, List.pairwise_map] at hndq
  exact (hle.and hndq).imp (fun ⟨h1, h2⟩ => by simp at h1; omega)

/-- **C17, scalar layout (repaired algorithm):** every row reads back exactly what was supplied -/
theorem scalar_readback {α} (n : Nat) (ps : List (Nat × α)) (hnd : (ps.map (·.1)).Nodup) (r : Nat) (hr : r < n) :
    (addScalar .repaired n ps)[r]? = some (supplied ps r) := by
  simp only [addScalar]
  have := fill_sorted n 0 (sortPairs ps) (sortPairs_strict ps hnd) (fun _ _ => Nat.zero_le _) r hr
  rw [this, Nat.zero_add, supplied_perm ps (sortPairs ps) (sortPairs_perm ps) hnd]

theorem scalar_length {α} (v : Variant) (n : Nat) (ps : List (Nat × α)) : (addScalar v n ps).length = n := by
  cases v <;> simp [addScalar, rwm_length, maskFrom]

/-- the unrepaired code satisfies the property only for ascending entity order -/
theorem scalar_readback_partial {α} (n : Nat) (ps : List (Nat × α)) (hs : (ps.map (·.1)).Pairwise (· < ·))
    (r : Nat) (hr : r < n) : (addScalar .asIs n ps)[r]? = some (supplied ps r) := by
  simp only [addScalar]
  have := fill_sorted n 0 ps hs (fun _ _ => Nat.zero_le _) r hr
  rw [this, Nat.zero_add]

/-! ### list layout -/

theorem filter_key_eq {α} (qs : List (Nat × α)) (hnd : (qs.map (·.1)).Nodup) (r : Nat) :
    qs.filter (fun p => p.1 == r) = match supplied qs r with | some l => [(r, l)] | none => [] := by
  induction qs with
  | nil => simp [supplied]
  | cons p qs ih =>
    obtain ⟨k, w⟩ := p
    simp only [List.map_cons, List.nodup_cons] at hnd
    obtain ⟨hk, hnd'⟩ := hnd
    by_cases hkr : k = r
    · subst hkr
      have hnone : qs.filter (fun p => p.1 == k) = [] := by
        apply List.filter_eq_nil_iff.mpr
        intro a ha h
        exact hk (List.mem_map.mpr ⟨a, ha, by simpa using h⟩)
      simp [supplied, List.filter_cons, hnone]
    · have hne : (k == r) = false := by simpa using hkr
      simp only [List.filter_cons, hne, supplied, List.find?_cons]
      exact ih hnd'

theorem rowSize_eq_wrow {α} (qs : List (Nat × List α)) (hnd : (qs.map (·.1)).Nodup) (r : Nat) :
    rowSize qs r = wrow List.length qs r := by
  unfold wrow
  rw [filter_key_eq qs hnd r]
  unfold rowSize supplied
  cases h : qs.find? (fun p => p.1 == r) with
  | none => simp
  | some p => simp

theorem flatten_length_eq_wsum {α} (qs : List (Nat × List α)) :
    ((qs.map (·.2)).flatten).length = (qs.map (fun p => p.2.length)).sum := by
  induction qs with
  | nil => rfl
  | cons p qs ih => simp [ih]

/-- **C17, list layout:** the offsets/values surgery reads back, for every row, the supplied list -/
theorem list_readback_sorted {α} (outLen : Nat) (qs : List (Nat × List α))
    (hs : (qs.map (·.1)).Pairwise (· < ·)) (r : Nat) (hr : r < outLen) :
    let col : ListCol α :=
      { offsets := (List.range (outLen + 1)).map (fun r => ((List.range r).map (rowSize qs)).sum),
        values := (qs.map (·.2)).flatten,
        valid := (List.range outLen).map (fun r => decide (r ∈ qs.map (·.1))) }
    col.get r = supplied qs r := by
  intro col
  have hnd : (qs.map (·.1)).Nodup := hs.imp (fun h => Nat.ne_of_lt h)
  have hsorted : SortedByRow qs := by
    rw [List.pairwise_map] at hs
    exact hs.imp (fun h => Nat.le_of_lt h)
  have hoff : ∀ u, u ≤ outLen → col.offsets.getD u 0 = wbelow List.length qs u := by
    intro u hu
    have : ((List.range u).map (rowSize qs)).sum = wbelow List.length qs u := by
      rw [← wcumsum_eq_wbelow]
      congr 1
      apply List.map_congr_left
      intro x _; exact rowSize_eq_wrow qs hnd x
    simp [col, List.getD_eq_getElem?_getD, List.getElem?_map, List.getElem?_range (by omega : u < outLen + 1), this]
  have hvalid : col.valid.getD r false = decide (r ∈ qs.map (·.1)) := by
    simp [col, List.getD_eq_getElem?_getD, List.getElem?_map, List.getElem?_range hr]
  unfold ListCol.get
  rw [hvalid, hoff r (by omega), hoff (r + 1) (by omega), wbelow_succ, Nat.add_sub_cancel_left]
  by_cases hmem : r ∈ qs.map (·.1)
  · simp only [hmem, decide_true, if_true]
    -- the supplied list for r
    cases hsup : supplied qs r with
    | none => exact absurd hmem ((supplied_eq_none_iff qs r).mp hsup)
    | some l =>
      congr 1
      have hsplit := split_lt_ge qs hsorted r
      have hvals : col.values = ((qs.filter (fun p => decide (p.1 < r))).map (·.2)).flatten
            ++ ((qs.filter (fun p => decide (r ≤ p.1))).map (·.2)).flatten := by
        show (qs.map (·.2)).flatten = _
        conv => lhs; rw [hsplit]
        simp [List.map_append, List.flatten_append]
      have hlen : (((qs.filter (fun p => decide (p.1 < r))).map (·.2)).flatten).length = wbelow List.length qs r := by
        rw [flatten_length_eq_wsum]; rfl
      rw [hvals, ← hlen, List.drop_left]
      -- now split the ≥ r part at r+1
      obtain ⟨G, hG⟩ : ∃ G, G = qs.filter (fun p => decide (r ≤ p.1)) := ⟨_, rfl⟩
      rw [← hG]
      have hGs : SortedByRow G := hG ▸ filter_lt_sorted qs hsorted r
      have hs2 := split_lt_ge G hGs (r + 1)
      have e1 : G.filter (fun p => decide (p.1 < r + 1)) = qs.filter (fun p => p.1 == r) := by
        rw [hG, List.filter_filter]
        apply List.filter_congr
        intro p _
        by_cases h1 : p.1 = r
        · simp [h1]
        · have e : (p.1 == r) = false := by simpa using h1
          rw [e]
          by_cases ha : p.1 < r + 1
          · have hb : ¬ r ≤ p.1 := by omega
            simp [ha, hb]
          · simp [ha]
      rw [e1, filter_key_eq qs hnd r, hsup] at hs2
      have hw : wrow List.length qs r = l.length := by
        unfold wrow; rw [filter_key_eq qs hnd r, hsup]; simp
      rw [hw]
      conv => lhs; rw [hs2]
      simp
  · simp only [hmem, decide_false]
    have := (supplied_eq_none_iff qs r).mpr hmem
    simp [this]

theorem list_readback {α} (outLen : Nat) (ps : List (Nat × List α)) (hnd : (ps.map (·.1)).Nodup)
    (r : Nat) (hr : r < outLen) : (expandAlign outLen ps).get r = supplied ps r := by
  have := list_readback_sorted outLen (sortPairs ps) (sortPairs_strict ps hnd) r hr
  simp only at this
  unfold expandAlign
  simp only
  rw [this, supplied_perm ps (sortPairs ps) (sortPairs_perm ps) hnd]

#print axioms list_readback
#print axioms scalar_readback
#print axioms fill_sorted
end LK.Attr
