import LK.Model.PipelineValidate
import LK.Proofs.Pipeline
/-! # C02 — an accepted wiring is acyclic (it has a rank), so the run theorem applies to every pipeline the builder lets through;
    a ranked graph has no cycle, so a cyclic wiring is never accepted -/
namespace LK.Pipe

theorem mem_markRound (g : Graph) (N : Nat) (marked : List Name) (n : Name) :
    n ∈ markRound g N marked ↔ n < N ∧ ∀ m ∈ srcs g n, m ∈ marked := by
  simp [markRound, List.mem_filter, List.all_eq_true]

/-- marking is monotone in the set of already marked nodes … -/
theorem markRound_mono (g : Graph) (N : Nat) (a b : List Name) (h : ∀ x ∈ a, x ∈ b) : ∀ x ∈ markRound g N a, x ∈ markRound g N b := by
  intro x hx
  rw [mem_markRound] at hx ⊢
  exact ⟨hx.1, fun m hm => h m (hx.2 m hm)⟩

/-- … hence the rounds only grow -/
theorem markIter_mono_step (g : Graph) (N : Nat) : ∀ k, ∀ x ∈ markIter g N k, x ∈ markIter g N (k + 1)
  | 0, x, hx => by simp [markIter] at hx
  | k + 1, x, hx => by
    simp only [markIter] at hx ⊢
    exact markRound_mono g N _ _ (markIter_mono_step g N k) x hx

theorem markIter_mono (g : Graph) (N : Nat) (j k : Nat) (hjk : j ≤ k) : ∀ x ∈ markIter g N j, x ∈ markIter g N k := by
  induction hjk with
  | refl => exact fun x hx => hx
  | step _ ih => exact fun x hx => markIter_mono_step g N _ x (ih x hx)

/-- the round in which a node is first marked, counted as the number of rounds `0..N` in which it is still unmarked -/
def firstRound (g : Graph) (N : Nat) (n : Name) : Nat :=
  ((List.range (N + 1)).filter (fun k => !(markIter g N k).contains n)).length

theorem unmarked_prefix (g : Graph) (N : Nat) (n : Name) (k : Nat) (hk : k ≤ N) (hm : n ∈ markIter g N k) :
    firstRound g N n ≤ k := by
  unfold firstRound
  have hsub : ∀ j ∈ (List.range (N + 1)).filter (fun j => !(markIter g N j).contains n), j ∈ List.range k := by
    intro j hj
    rw [List.mem_filter] at hj
    rw [List.mem_range]
    rcases Nat.lt_or_ge j k with hlt | hjk
    · exact hlt
    · have := markIter_mono g N k j hjk n hm
      simp [this] at hj
  have hnd : ((List.range (N + 1)).filter (fun j => !(markIter g N j).contains n)).Nodup :=
    List.Nodup.sublist List.filter_sublist List.nodup_range
  have := List.Nodup.length_le_of_subset hnd hsub
  simp only [List.length_range] at this
  exact this

theorem least_marked (g : Graph) (N : Nat) (n : Name) : ∀ k, n ∈ markIter g N k →
    ∃ j, j ≤ k ∧ n ∈ markIter g N j ∧ ∀ i, i < j → n ∉ markIter g N i
  | 0, h => by simp [markIter] at h
  | k + 1, h => by
    by_cases hk : n ∈ markIter g N k
    · obtain ⟨j, hj, hm, hmin⟩ := least_marked g N n k hk
      exact ⟨j, by omega, hm, hmin⟩
    · refine ⟨k + 1, Nat.le_refl _, h, ?_⟩
      intro i hi hmem
      exact hk (markIter_mono g N i k (by omega) n hmem)

theorem still_unmarked (g : Graph) (N : Nat) (n : Name) (k : Nat) (hk : k ≤ N) (hm : n ∉ markIter g N k) :
    k + 1 ≤ firstRound g N n := by
  unfold firstRound
  have hsub : ∀ j ∈ List.range (k + 1), j ∈ (List.range (N + 1)).filter (fun j => !(markIter g N j).contains n) := by
    intro j hj
    rw [List.mem_range] at hj
    rw [List.mem_filter, List.mem_range]
    refine ⟨by omega, ?_⟩
    have : n ∉ markIter g N j := fun h => hm (markIter_mono g N j k (by omega) n h)
    simpa using this
  have := List.Nodup.length_le_of_subset List.nodup_range hsub
  simpa using this

/-- **C02 (accepted wirings are acyclic):** when `validate` accepts the `N` declared nodes (and nothing outside them is a component),
    every wired source is first marked strictly before its consumer — the rank that `run_eq_denote` asks for -/
def rankedOfValidate (g : Graph) (N : Nat) (hv : validateOk g N = true)
    (hout : ∀ n, N ≤ n → ∀ ps sel fin, g.node n ≠ .comp ps sel fin) : Ranked g where
  rank := firstRound g N
  edge := by
    intro n params sel fin hn p hp src hsrc
    have hnN : n < N := by
      rcases Nat.lt_or_ge n N with h | h
      · exact h
      · exact absurd hn (hout n h params sel fin)
    have hsrcs : src ∈ srcs g n := by
      simp only [srcs, hn, List.mem_filterMap]; exact ⟨p, hp, hsrc⟩
    -- n is marked by round N; take the first round k+1 at which it is marked
    have hmarkedN : n ∈ markIter g N N := by
      simp only [validateOk, List.all_eq_true, List.mem_range] at hv
      simpa using hv n hnN
    obtain ⟨k, hkN, hk, hmin⟩ := least_marked g N n N hmarkedN
    cases k with
    | zero => simp [markIter] at hk
    | succ k =>
      simp only [markIter] at hk
      have hsrcMarked : src ∈ markIter g N k := ((mem_markRound g N _ n).mp hk).2 src hsrcs
      have h1 : firstRound g N src ≤ k := unmarked_prefix g N src k (by omega) hsrcMarked
      have h2 : k + 1 ≤ firstRound g N n := still_unmarked g N n k (by omega) (hmin k (by omega))
      omega

/-- the run theorem for every pipeline the builder accepts -/
theorem validated_run_eq_denote (g : Graph) (N : Nat) (hv : validateOk g N = true)
    (hout : ∀ n, N ≤ n → ∀ ps sel fin, g.node n ≠ .comp ps sel fin) (ι : Name → Val) (reqs : List Name) :
    (run .repaired g ι (N + 2) reqs).1 = denoteAll g ι (N + 2) reqs := by
  apply run_eq_denote g (rankedOfValidate g N hv hout) ι (N + 2) reqs
  intro n _
  show firstRound g N n < N + 2
  have h : firstRound g N n ≤ (List.range (N + 1)).length := by
    unfold firstRound; exact List.length_filter_le _ _
  simp only [List.length_range] at h; omega

/-- a chain of wiring edges -/
inductive WiredPath (g : Graph) : Name → Name → Prop
  | edge {n m} : m ∈ srcs g n → WiredPath g n m
  | step {n m l} : m ∈ srcs g n → WiredPath g m l → WiredPath g n l

theorem rank_lt_of_edge (g : Graph) (R : Ranked g) (n m : Name) (hm : m ∈ srcs g n) : R.rank m < R.rank n := by
  unfold srcs at hm
  cases hn : g.node n with
  | comp ps sel fin =>
    simp only [hn, List.mem_filterMap] at hm
    obtain ⟨p, hp, hsrc⟩ := hm
    exact R.edge n ps sel fin hn p hp m hsrc
  | input a b => simp [hn] at hm
  | literal v => simp [hn] at hm

theorem rank_lt_of_path (g : Graph) (R : Ranked g) {n m : Name} (h : WiredPath g n m) : R.rank m < R.rank n := by
  induction h with
  | @edge n m hm => exact rank_lt_of_edge g R n m hm
  | @step n m l hm _ ih =>
    have h1 : R.rank m < R.rank n := rank_lt_of_edge g R n m hm
    omega

/-- **C02 (cyclic wirings are rejected):** a wiring in which some node reaches itself is never accepted -/
theorem cyclic_rejected (g : Graph) (N : Nat) (hout : ∀ n, N ≤ n → ∀ ps sel fin, g.node n ≠ .comp ps sel fin)
    (n : Name) (hc : WiredPath g n n) : validateOk g N = false := by
  cases hv : validateOk g N with
  | false => rfl
  | true =>
    have := rank_lt_of_path g (rankedOfValidate g N hv hout) hc
    omega

#print axioms validated_run_eq_denote
#print axioms cyclic_rejected
end LK.Pipe
