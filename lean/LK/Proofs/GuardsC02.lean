import LK.Generated.GuardsC02
/-!
# C02 — obligation on the translated `fallback_on_none` (the component behind `use_first_of`)
-/
set_option linter.unusedSimpArgs false
namespace LK.Gen.GuardsC02

/-- the first-available component returns its primary input whenever that is not `None` — whatever its truth value — and only
    otherwise consults the fallback: the `firstOf` operation of the pipeline DSL the C02 theorems are about -/
theorem fallbackOnNone_spec (primary fallback : LK.Py.V) :
    fallbackOnNone primary fallback = (match primary with | some v => some v | none => fallback) := by
  cases primary with
  | none => simp [fallbackOnNone, LK.Py.por, LK.Py.truthy]
  | some v => simp [fallbackOnNone, LK.Py.por, LK.Py.truthy]

/-- …in particular a falsy primary value (0, an empty list) is a value -/
theorem fallbackOnNone_falsy (fallback : LK.Py.V) : fallbackOnNone (some 0) fallback = some 0 := by
  rw [fallbackOnNone_spec]

end LK.Gen.GuardsC02
