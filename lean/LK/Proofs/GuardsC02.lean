import LK.Generated.GuardsC02
import LK.Model.Pipeline
/-!
# C02 — obligation on the translated `fallback_on_none` (the component behind `use_first_of`)
-/
set_option linter.unusedSimpArgs false
namespace LK.Gen.GuardsC02

/-- the first-available component returns its primary input whenever that is not `None` — whatever its truth value — and only
    otherwise consults the fallback: the `firstOf` operation of the pipeline DSL the C02 theorems are about -/
theorem fallbackOnNone_spec (primary fallback : LK.Py.V) :
    fallbackOnNone primary fallback = (match primary with | some v => some v | none => fallback) := by
  cases primary with
  | none => simp [fallbackOnNone, LK.Py.por, LK.Py.truthy]
  | some v => simp [fallbackOnNone, LK.Py.por, LK.Py.truthy]

/-- …in particular a falsy primary value (0, an empty list) is a value -/
theorem fallbackOnNone_falsy (fallback : LK.Py.V) : fallbackOnNone (some 0) fallback = some 0 := by
  rw [fallbackOnNone_spec]

/-! ### the runner's decisions (`PipelineRunner.run`, `_inject_input`, `_run_component`, `DeferredRun.get`)

The model's parameter (`LK.Pipe.Param`) *accepts `None`* when it has no type annotation or `None` is compatible with it, and accepts
a value when it has no annotation or the value is compatible: `acceptsNone = !typed || noneOk`, `accepts v = !typed || valOk`. -/
open LK.Pipe

/-- `ireq` — whether a dependency is required of its source — is the model's `required && !p.acceptsNone` -/
theorem inputRequired_eq (required typed noneOk : Bool) :
    inputRequired required typed noneOk = (required && !(!typed || noneOk)) := by
  cases required <;> cases typed <;> cases noneOk <;> rfl

/-- a dependency — eager or deferred — is asked of its source with *its own* requiredness (`ireq`), not with the consumer's:
    the model's `rn src ireq` in `runParamsWith` and the `(p, src, ireq)` it stores for `forceLazy` -/
theorem dependency_required_is_ireq (ireq required stored : Bool) :
    eagerRunRequired ireq required = ireq ∧ deferredRunRequired ireq required = ireq ∧ deferredGetRequired stored = stored := by
  cases ireq <;> cases required <;> cases stored <;> simp [eagerRunRequired, deferredRunRequired, deferredGetRequired]

/-- a component bails out (no result, no error) exactly as the model's parameter loop does: an eager dependency came back `None`,
    the parameter does not accept `None`, and the component itself is not required -/
theorem bailOut_iff (ival : LK.Py.V) (typed noneOk required : Bool) :
    bailOutBranch ival typed false noneOk required = 0 ↔ (ival.isNone ∧ (!(!typed || noneOk)) = true ∧ (!required) = true) := by
  cases ival <;> cases typed <;> cases noneOk <;> cases required <;> simp [bailOutBranch]

/-- lazy parameters are never the reason to bail out, and are not type-checked when the component starts (`DeferredRun.get` does it) -/
theorem lazy_deferred (ival : LK.Py.V) (typed noneOk required valOk : Bool) :
    bailOutBranch ival typed true noneOk required = 1 ∧ inputTypeBranch typed true valOk = 1 := by
  cases ival <;> cases typed <;> cases noneOk <;> cases required <;> cases valOk <;> simp [bailOutBranch, inputTypeBranch]

/-- an eager dependency is rejected exactly when the model's `paramOk` fails … -/
theorem inputType_iff (typed valOk : Bool) : inputTypeBranch typed false valOk = 0 ↔ (!(!typed || valOk)) = true := by
  cases typed <;> cases valOk <;> simp [inputTypeBranch]

/-- … as a `PipelineError` when nothing came back and a `TypeError` otherwise -/
theorem inputErrorKind (x : Int) : inputErrorKindBranch none = 0 ∧ inputErrorKindBranch (some x) = 1 := by
  simp [inputErrorKindBranch]

/-- a missing input is an error exactly when this request requires it and the input does not accept `None` -/
theorem injectMissing_iff (val : LK.Py.V) (required typed noneOk : Bool) :
    injectMissingBranch val required typed noneOk = 0 ↔ (val.isNone ∧ required = true ∧ (!(!typed || noneOk)) = true) := by
  cases val <;> cases required <;> cases typed <;> cases noneOk <;> simp [injectMissingBranch]

/-- a supplied input is rejected exactly when it is ill-typed -/
theorem injectType_iff (val : LK.Py.V) (typed valOk : Bool) :
    injectTypeBranch val typed valOk = 0 ↔ (val.isSome ∧ (!(!typed || valOk)) = true) := by
  cases val <;> cases typed <;> cases valOk <;> simp [injectTypeBranch]

/-- a deferred input is type-checked when it is consulted -/
theorem deferredType_iff (dataType : LK.Py.V) (valOk : Bool) :
    deferredTypeBranch dataType valOk = 0 ↔ (dataType.isSome ∧ valOk = false) := by
  cases dataType <;> cases valOk <;> simp [deferredTypeBranch]

/-- the status dispatch of `run`: the model's four arms in the model's order (finished → memo, in progress → cycle error,
    failed → error, pending → run it) -/
theorem runStatus_dispatch (st : Status) :
    runStatusBranch (st == .finished) (st == .inProgress) (st == .failed)
      = (match st with | .finished => 0 | .inProgress => 1 | .failed => 2 | .pending => 3) := by
  cases st <;> rfl

def encV : Val → LK.Py.V
  | .none => none
  | _ => some 0

/-- **a request of a finished node, in the model, is the translated dispatch:** the memoised value (an input re-validated against
    *this* request's `required` flag), `PipelineError` when the node bailed out earlier and is now required, `None` otherwise -/
theorem runNode_finished_dispatch (g : Graph) (ι : Name → Val) (fuel : Nat) (n : Name) (required : Bool) (s : RS)
    (h : s.status n = .finished) :
    runNode .repaired g ι (fuel + 1) n required s =
      (match runFinishedBranch (s.state n).isSome required with
       | 0 =>
         (match s.state n with
          | some v =>
            (match g.node n with
             | .input an _ =>
               if runRevalidateBranch (encV v) required true = 0 ∧ (!an) = true then (.error .pipeline, s) else (.ok (some v), s)
             | _ => (.ok (some v), s))
          | Option.none => (.ok Option.none, s))
       | 1 => (.error .pipeline, s)
       | _ => (.ok Option.none, s)) := by
  unfold runNode
  simp only [h]
  cases hs : s.state n with
  | none => cases required <;> simp [runFinishedBranch]
  | some v =>
    simp only [runFinishedBranch, Option.isSome_some, if_true]
    cases hg : g.node n with
    | input an acc =>
      cases v <;> cases required <;> cases an <;> simp [runRevalidateBranch, encV]
    | literal w => rfl
    | comp ps sel fin => rfl

end LK.Gen.GuardsC02
