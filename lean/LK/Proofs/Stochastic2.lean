import LK.Proofs.Stochastic
import Mathlib.Algebra.Order.Field.Rat
import Mathlib.Tactic.Linarith
import Mathlib.Tactic.Ring
import Mathlib.Tactic.Positivity
import Mathlib.Tactic.FieldSimp
/-! C19 — exact length, uniform selection, and the weight transforms are probability vectors. -/
namespace LK.Stoch
open LK.TopN

/-- **C19 (exact length):** one key per eligible item ⇒ exactly `min(n, #eligible)` results -/
theorem stochasticRank_length (scores : List Score) (cfg run : Option Int) (weights logu : List Q) (eps : Q)
    (hw : weights.length = ((List.range scores.length).filter (fun p => (scores.getD p .nan).isFinite)).length)
    (hl : logu.length = weights.length) :
    (stochasticRank scores cfg run weights logu eps).length =
      effN cfg run ((List.range scores.length).filter (fun p => (scores.getD p .nan).isFinite)).length := by
  unfold stochasticRank
  simp only
  generalize hel : (List.range scores.length).filter (fun p => (scores.getD p .nan).isFinite) = el at hw ⊢
  by_cases h0 : el.length = 0
  · simp only [h0, if_true, List.length_nil]
    have := effN_le cfg run 0
    omega
  · simp only [h0, if_false]
    have hklen : ((keys logu weights eps).map some).length = el.length := by
      simp [keys, List.length_zipWith, hl, hw]
    have hvalid : validPositions ((keys logu weights eps).map some) = List.range el.length := by
      unfold validPositions
      rw [hklen]
      apply List.filter_eq_self.mpr
      intro p hp
      have hp' : p < ((keys logu weights eps).map some).length := by rw [hklen]; exact List.mem_range.mp hp
      simp [List.getD_eq_getElem?_getD, List.getElem?_eq_getElem hp']
    have hsub : ∀ j ∈ argtopn ((keys logu weights eps).map some) (effN cfg run el.length : Int), j < el.length := by
      intro j hj
      have := argtopn_sub _ _ j hj
      rw [hvalid] at this
      exact List.mem_range.mp this
    have hfm : ∀ (idxs : List Nat), (∀ j ∈ idxs, j < el.length) → (idxs.filterMap (fun j => el[j]?)).length = idxs.length := by
      intro idxs
      induction idxs with
      | nil => intro _; rfl
      | cons j js ih =>
        intro h
        have hj : j < el.length := h j (by simp)
        simp only [List.filterMap_cons, List.getElem?_eq_getElem hj, List.length_cons]
        rw [ih (fun j' hj' => h j' (by simp [hj']))]
    rw [hfm _ hsub, argtopn_length, hvalid, List.length_range]
    have hle := effN_le cfg run el.length
    have : ¬ ((effN cfg run el.length : Nat) : Int) < 0 := by omega
    simp only [this, if_false, Int.toNat_natCast]
    omega

/-- **C19 (uniform selection is a valid sample)**, for every outcome `picks` of `rng.choice(len, k, replace=False)` -/
theorem randomSelect_valid (len : Nat) (cfg run : Option Int) (picks : List Nat)
    (hnd : picks.Nodup) (hrange : ∀ p ∈ picks, p < len) :
    (randomSelect len cfg run picks).Nodup ∧ (∀ p ∈ randomSelect len cfg run picks, p < len) := by
  unfold randomSelect
  simp only
  generalize randomK len cfg run = k
  by_cases hk : k > 0
  · rw [if_pos hk]
    exact ⟨hnd.sublist (List.take_sublist _ _), fun p hp => hrange p (List.mem_of_mem_take hp)⟩
  · rw [if_neg hk]
    exact ⟨List.nodup_nil, by intro p hp; simp at hp⟩

/-! ### weights -/

theorem sumQ_map_div (xs : List Q) (c : Q) : sumQ (xs.map (· / c)) = sumQ xs / c := by
  induction xs with
  | nil => simp [sumQ]
  | cons x xs ih => simp only [List.map_cons, sumQ, List.foldr_cons] at ih ⊢; rw [ih]; ring

theorem sumQ_const (n : Nat) (c : Q) (xs : List Q) (h : xs.length = n) : sumQ (xs.map (fun _ => c)) = n * c := by
  subst h
  induction xs with
  | nil => simp [sumQ]
  | cons x xs ih => simp only [List.map_cons, sumQ, List.foldr_cons, List.length_cons] at ih ⊢; rw [ih]; push_cast; ring

/-- **C19 (linear transform is a probability vector):** the weights sum to one for a non-empty list -/
theorem linearWeights_sum (scores : List Q) (hne : scores ≠ []) : sumQ (linearWeights scores) = 1 := by
  unfold linearWeights
  simp only
  have hlen : (scores.length : Q) ≠ 0 := by
    have : 0 < scores.length := List.length_pos_of_ne_nil hne
    exact_mod_cast Nat.pos_iff_ne_zero.mp this
  have hunif : sumQ (scores.map (fun _ => 1 / (scores.length : Q))) = 1 := by
    rw [sumQ_const scores.length _ scores rfl]; field_simp
  split
  · split
    · rename_i htot
      rw [sumQ_map_div]
      exact div_self (ne_of_gt htot)
    · exact hunif
  · exact hunif

/-- softmax weights sum to one whenever the exponentials have a non-zero total -/
theorem softmaxWeights_sum (expTbl : List Q) (h : sumQ expTbl ≠ 0) : sumQ (softmaxWeights expTbl) = 1 := by
  unfold softmaxWeights
  rw [sumQ_map_div]; exact div_self h

#print axioms stochasticRank_length
#print axioms randomSelect_valid
#print axioms linearWeights_sum
end LK.Stoch
