import LK.Model.Bias
import Mathlib.Algebra.Order.Field.Rat
import Mathlib.Tactic.Ring
import Mathlib.Tactic.Linarith
import Mathlib.Tactic.Positivity
namespace LK.Bias

theorem getD_set (acc : List Q) (i j : Nat) (x : Q) (hi : i < acc.length) :
    (acc.set i x).getD j 0 = if i = j then x else acc.getD j 0 := by
  simp only [List.getD_eq_getElem?_getD, List.getElem?_set]
  by_cases h : i = j
  · subst h; simp [hi]
  · simp [h]

theorem foldl_addAt_length (acc : List Q) (ivs : List (Nat × Q)) :
    ((ivs.foldl (fun acc iv => acc.set iv.1 (acc.getD iv.1 0 + iv.2)) acc)).length = acc.length := by
  induction ivs generalizing acc with
  | nil => rfl
  | cons iv ivs ih => simp only [List.foldl_cons]; rw [ih]; simp

/-- scatter-add: slot `j` ends up with its initial value plus everything addressed to it -/
theorem foldl_addAt_get (acc : List Q) (ivs : List (Nat × Q)) (hb : ∀ iv ∈ ivs, iv.1 < acc.length) (j : Nat) :
    (ivs.foldl (fun acc iv => acc.set iv.1 (acc.getD iv.1 0 + iv.2)) acc).getD j 0
      = acc.getD j 0 + sumQ ((ivs.filter (fun iv => iv.1 == j)).map (·.2)) := by
  induction ivs generalizing acc with
  | nil => simp [sumQ]
  | cons iv ivs ih =>
    simp only [List.foldl_cons]
    have hi : iv.1 < acc.length := hb iv List.mem_cons_self
    rw [ih (acc.set iv.1 (acc.getD iv.1 0 + iv.2)) (fun x hx => by simpa using hb x (List.mem_cons_of_mem _ hx))]
    rw [getD_set acc iv.1 j _ hi]
    by_cases h : iv.1 = j
    · subst h
      simp only [if_true, List.filter_cons, beq_self_eq_true, List.map_cons, sumQ, List.foldr_cons]
      ring
    · have hne : (iv.1 == j) = false := by simpa using h
      simp only [h, if_false, List.filter_cons, hne]
      simp

theorem addAt_get (n : Nat) (init : Q) (idx : List Nat) (vals : List Q) (hlen : idx.length = vals.length)
    (hb : ∀ k ∈ idx, k < n) (j : Nat) (hj : j < n) :
    (addAt n init idx vals).getD j 0 = init + sumQ (((List.zip idx vals).filter (fun iv => iv.1 == j)).map (·.2)) := by
  unfold addAt
  rw [foldl_addAt_get (List.replicate n init) (List.zip idx vals)
    (fun iv hiv => by simp; exact hb iv.1 (List.of_mem_zip hiv).1) j]
  simp [List.getD_eq_getElem?_getD, hj]

theorem zip_map_filter (rs : List Rating) (key : Rating → Nat) (f : Rating → Q) (j : Nat) :
    ((List.zip (rs.map key) (rs.map f)).filter (fun iv => iv.1 == j)).map (·.2)
      = (rs.filter (fun x => key x == j)).map f := by
  induction rs with
  | nil => rfl
  | cons r rs ih =>
    simp only [List.map_cons, List.zip_cons_cons, List.filter_cons]
    by_cases h : key r = j
    · simp [h, ih]
    · have : (key r == j) = false := by simpa using h
      simp [this, ih]

theorem sumQ_const_one (l : List Rating) : sumQ (l.map (fun _ => (1 : Q))) = (l.length : Q) := by
  induction l with
  | nil => simp [sumQ]
  | cons a as ih => simp only [List.map_cons, sumQ, List.foldr_cons, List.length_cons] at ih ⊢; rw [ih]; push_cast; ring

/-- **C08 (item offsets):** the accumulate-then-divide code equals the documented damped mean -/
theorem itemBiases_eq_def (nItems : Nat) (damp : Q) (rs : List Rating) (hb : ∀ x ∈ rs, x.i < nItems)
    (i : Nat) (hi : i < nItems) :
    (itemBiasesImpl nItems damp rs).getD i 0 = itemBiasDef damp rs i := by
  unfold itemBiasesImpl itemBiasDef
  simp only
  have hlenC : (addAt nItems damp (rs.map (·.i)) (rs.map (fun _ => 1))).length = nItems := by
    unfold addAt; rw [foldl_addAt_length]; simp
  have hlenS : (addAt nItems 0 (rs.map (·.i)) (rs.map (fun x => x.r - globalMean rs))).length = nItems := by
    unfold addAt; rw [foldl_addAt_length]; simp
  have hidx : ∀ k ∈ rs.map (·.i), k < nItems := by
    intro k hk; obtain ⟨x, hx, rfl⟩ := List.mem_map.mp hk; exact hb x hx
  rw [List.getD_eq_getElem?_getD, List.getElem?_zipWith]
  have hc := addAt_get nItems damp (rs.map (·.i)) (rs.map (fun _ => (1 : Q))) (by simp) hidx i hi
  have hs := addAt_get nItems 0 (rs.map (·.i)) (rs.map (fun x => x.r - globalMean rs)) (by simp) hidx i hi
  rw [zip_map_filter rs (·.i) (fun _ => 1) i, sumQ_const_one] at hc
  rw [zip_map_filter rs (·.i) (fun x => x.r - globalMean rs) i] at hs
  have hs' : (addAt nItems 0 (rs.map (·.i)) (rs.map (fun x => x.r - globalMean rs)))[i]?
      = some (sumQ ((rs.filter (fun x => x.i == i)).map (fun x => x.r - globalMean rs))) := by
    rw [List.getD_eq_getElem?_getD] at hs
    rw [List.getElem?_eq_getElem (by rw [hlenS]; exact hi)] at hs ⊢
    simp only [Option.getD_some] at hs
    rw [hs, zero_add]
  have hc' : (addAt nItems damp (rs.map (·.i)) (rs.map (fun _ => 1)))[i]?
      = some (((rs.filter (fun x => x.i == i)).length : Q) + damp) := by
    rw [List.getD_eq_getElem?_getD] at hc
    rw [List.getElem?_eq_getElem (by rw [hlenC]; exact hi)] at hc ⊢
    simp only [Option.getD_some] at hc
    rw [hc, add_comm]
  rw [hs', hc']
  simp

#print axioms itemBiases_eq_def
end LK.Bias

namespace LK.Bias

theorem count_lt_add_eq_le (l : List Nat) (a b : Nat) (hab : a < b) :
    (l.filter (fun x => decide (x < a))).length + (l.filter (fun x => x == a)).length
      ≤ (l.filter (fun x => decide (x < b))).length := by
  induction l with
  | nil => simp
  | cons x xs ih =>
    simp only [List.filter_cons]
    by_cases h1 : x < a
    · have h2 : x < b := by omega
      have h3 : ¬ x = a := by omega
      simp [h1, h2, h3]; omega
    · by_cases h3 : x = a
      · subst h3
        have h1' : ¬ x < x := Nat.lt_irrefl x
        simp [h1', hab]; omega
      · by_cases h2 : x < b
        · simp [h1, h2, h3]; omega
        · simp [h1, h2, h3]; omega

theorem count_eq_pos (l : List Nat) (i : Nat) (hi : i < l.length) :
    0 < (l.filter (fun x => x == l.getD i 0)).length := by
  have : l.getD i 0 ∈ l.filter (fun x => x == l.getD i 0) := by
    apply List.mem_filter.mpr
    refine ⟨?_, by simp⟩
    rw [List.getD_eq_getElem?_getD, List.getElem?_eq_getElem hi]
    exact List.getElem_mem hi
  exact List.length_pos_of_mem this

/-- **C08 (popularity, rank variant):** a larger interaction count always gives a larger score -/
theorem avgRank_strict_mono (counts : List Nat) (a b : Nat) (hb : b < counts.length)
    (h : countOf counts a < countOf counts b) : avgRank counts a < avgRank counts b := by
  unfold avgRank
  simp only
  have h1 := count_lt_add_eq_le counts (countOf counts a) (countOf counts b) h
  have h2 : 0 < (counts.filter (fun x => x == countOf counts b)).length := count_eq_pos counts b hb
  have h1' : ((counts.filter (fun x => decide (x < countOf counts a))).length : Q)
      + ((counts.filter (fun x => x == countOf counts a)).length : Q)
      ≤ ((counts.filter (fun x => decide (x < countOf counts b))).length : Q) := by exact_mod_cast h1
  have h2' : (0 : Q) < ((counts.filter (fun x => x == countOf counts b)).length : Q) := by exact_mod_cast h2
  have h3 : (0 : Q) ≤ ((counts.filter (fun x => x == countOf counts a)).length : Q) := by positivity
  linarith

/-- the count variant is the identity on counts, hence strictly monotone -/
theorem count_strict_mono (counts : List Nat) (a b : Nat) (h : countOf counts a < countOf counts b) :
    ((countOf counts a : Nat) : Q) < ((countOf counts b : Nat) : Q) := by exact_mod_cast h

#print axioms avgRank_strict_mono
end LK.Bias
