import LK.Model.Config
/-! # C02 / C13 — resolution of a component's wiring: explicit connections win, builder defaults fill the rest, nothing else appears -/
namespace LK.Cfg

/-- the default part of the resolution, entry by entry -/
theorem mem_defaultPart (defaults : List (String × String)) (c : BComp) (p s : String)
    (h : (p, s) ∈ c.params.filterMap (fun q =>
      if (c.edges.map (·.1)).contains q then none else (defaults.find? (·.1 == q)).map (fun d => (q, d.2)))) :
    p ∈ c.params ∧ (c.edges.map (·.1)).contains p = false ∧ ∃ d, defaults.find? (·.1 == p) = some d ∧ d.2 = s := by
  obtain ⟨q, hq1, hq2⟩ := List.mem_filterMap.mp h
  by_cases hc : (c.edges.map (·.1)).contains q = true
  · rw [if_pos hc] at hq2; cases hq2
  · rw [if_neg hc] at hq2
    cases hf : defaults.find? (·.1 == q) with
    | none => rw [hf] at hq2; cases hq2
    | some d =>
      rw [hf] at hq2
      simp only [Option.map_some, Option.some.injEq, Prod.mk.injEq] at hq2
      obtain ⟨hqp, hds⟩ := hq2
      subst hqp
      exact ⟨hq1, by simpa using hc, d, hf, hds⟩

/-- every explicit connection is part of the resolved wiring -/
theorem resolve_explicit (defaults : List (String × String)) (c : BComp) (e : String × String) (h : e ∈ c.edges) :
    e ∈ resolve defaults c := by
  unfold resolve; exact List.mem_append_left _ h

/-- a parameter with an explicit connection gets nothing from the defaults -/
theorem resolve_explicit_wins (defaults : List (String × String)) (c : BComp) (p s : String)
    (hp : p ∈ c.edges.map (·.1)) (h : (p, s) ∈ resolve defaults c) : (p, s) ∈ c.edges := by
  unfold resolve at h
  rcases List.mem_append.mp h with h | h
  · exact h
  · obtain ⟨_, hc, _⟩ := mem_defaultPart defaults c p s h
    have : (c.edges.map (·.1)).contains p = true := by simpa using hp
    rw [this] at hc; cases hc

/-- an unwired parameter takes the builder's default connection of its name -/
theorem resolve_default (defaults : List (String × String)) (c : BComp) (p : String) (d : String × String)
    (hp : p ∈ c.params) (hne : p ∉ c.edges.map (·.1)) (hd : defaults.find? (·.1 == p) = some d) :
    (p, d.2) ∈ resolve defaults c := by
  unfold resolve
  apply List.mem_append_right
  apply List.mem_filterMap.mpr
  refine ⟨p, hp, ?_⟩
  have hc : ¬ (c.edges.map (·.1)).contains p = true := by simpa using hne
  rw [if_neg hc, hd]; rfl

/-- a parameter with neither an explicit connection nor a default stays unwired -/
theorem resolve_unwired (defaults : List (String × String)) (c : BComp) (p s : String)
    (hne : p ∉ c.edges.map (·.1)) (hd : defaults.find? (·.1 == p) = none) : (p, s) ∉ resolve defaults c := by
  intro h
  unfold resolve at h
  rcases List.mem_append.mp h with h | h
  · exact hne (List.mem_map.mpr ⟨(p, s), h, rfl⟩)
  · obtain ⟨_, _, d, hf, _⟩ := mem_defaultPart defaults c p s h
    rw [hd] at hf; cases hf

/-- nothing but explicit connections and defaults of the component's own parameters ever appears -/
theorem resolve_sound (defaults : List (String × String)) (c : BComp) (p s : String) (h : (p, s) ∈ resolve defaults c) :
    (p, s) ∈ c.edges ∨ (p ∈ c.params ∧ p ∉ c.edges.map (·.1) ∧ ∃ d, defaults.find? (·.1 == p) = some d ∧ d.2 = s) := by
  unfold resolve at h
  rcases List.mem_append.mp h with h | h
  · exact Or.inl h
  · obtain ⟨h1, h2, h3⟩ := mem_defaultPart defaults c p s h
    exact Or.inr ⟨h1, by simpa using h2, h3⟩

#print axioms resolve_explicit_wins
#print axioms resolve_default
#print axioms resolve_sound
end LK.Cfg
