import LK.Generated.GuardsC16
/-!
# C16 — the decisions of `ItemList.numbers`
The model's `numbersOf` goes through an alternate vocabulary exactly when one is given that is not the list's own, computes (and caches)
the own-vocabulary numbers exactly when none are stored, and raises `KeyError` exactly when `missing="error"` and some number is negative —
checked on every call, also against cached numbers.
-/
set_option linter.unusedSimpArgs false
namespace LK.Gen.GuardsC16

/-- branch 0 (translate the identifiers through the alternate vocabulary, without caching) is taken exactly when a vocabulary is given
    that is not the list's own -/
theorem alt_iff (v : Int) (differs : Bool) : numbersAltBranch (some v) differs = (if differs then 0 else 1) := by
  cases differs <;> simp [numbersAltBranch, LK.Py.truthy]

theorem own_without_vocabulary (differs : Bool) : numbersAltBranch none differs = 1 := by
  simp [numbersAltBranch, LK.Py.truthy]

/-- the own-vocabulary numbers are computed exactly when none are stored — stored numbers, whatever their truth value, are used as they are -/
theorem compute_iff_absent (k : Int) (vocab : LK.Py.V) : numbersCacheBranch (some k) vocab = 1 ∧ numbersCacheBranch none vocab = 0 := by
  simp [numbersCacheBranch, LK.Py.truthy]

/-- `KeyError` exactly when unknown items are an error and there is one — the test is made on every call -/
theorem error_iff (missingIsError anyUnknown : Bool) :
    numbersErrorBranch missingIsError anyUnknown = (if missingIsError && anyUnknown then 0 else 1) := by
  cases missingIsError <;> cases anyUnknown <;> rfl

end LK.Gen.GuardsC16
