import LK.Generated.GuardsC16
import LK.Model.ItemList
/-!
# C16 — the decisions of `ItemList.numbers`
The model's `numbersOf` goes through an alternate vocabulary exactly when one is given that is not the list's own, computes (and caches)
the own-vocabulary numbers exactly when none are stored, and raises `KeyError` exactly when `missing="error"` and some number is negative —
checked on every call, also against cached numbers.
-/
set_option linter.unusedSimpArgs false
namespace LK.Gen.GuardsC16

/-- branch 0 (translate the identifiers through the alternate vocabulary, without caching) is taken exactly when a vocabulary is given
    that is not the list's own -/
theorem alt_iff (v : Int) (differs : Bool) : numbersAltBranch (some v) differs = (if differs then 0 else 1) := by
  cases differs <;> simp [numbersAltBranch, LK.Py.truthy]

theorem own_without_vocabulary (differs : Bool) : numbersAltBranch none differs = 1 := by
  simp [numbersAltBranch, LK.Py.truthy]

/-- the own-vocabulary numbers are computed exactly when none are stored — stored numbers, whatever their truth value, are used as they are -/
theorem compute_iff_absent (k : Int) (vocab : LK.Py.V) : numbersCacheBranch (some k) vocab = 1 ∧ numbersCacheBranch none vocab = 0 := by
  simp [numbersCacheBranch, LK.Py.truthy]

/-- `KeyError` exactly when unknown items are an error and there is one — the test is made on every call -/
theorem error_iff (missingIsError anyUnknown : Bool) :
    numbersErrorBranch missingIsError anyUnknown = (if missingIsError && anyUnknown then 0 else 1) := by
  cases missingIsError <;> cases anyUnknown <;> rfl

/-! ### the copy constructor's bookkeeping (`ItemList(source, item_ids=…, item_nums=…, vocabulary=…)`)

The constructor starts from a copy of the source's slots and then decides which of them an override makes stale.  These are the
decisions of the model's `Variant.repaired` (`withVocab`, `copyIds`, `copyNums`, `copyBoth`, `keepRanks`). -/
open LK.IL

/-- numbers copied from the source are stale exactly when the source had a vocabulary, another one is given, and numbers were cached —
    `withVocab .repaired` drops them in exactly that case -/
theorem stale_iff (srcVocab srcNumbers : LK.Py.V) (differs : Bool) :
    ctorStaleNumbersBranch true srcVocab differs srcNumbers = 0 ↔ (srcVocab.isSome ∧ differs ∧ srcNumbers.isSome) := by
  cases srcVocab <;> cases srcNumbers <;> cases differs <;> simp [ctorStaleNumbersBranch]

theorem stale_only_for_lists (srcVocab srcNumbers : LK.Py.V) (differs : Bool) : ctorStaleNumbersBranch false srcVocab differs srcNumbers = 1 := by
  simp [ctorStaleNumbersBranch]

/-- the model's `withVocab .repaired` in terms of the translated test: numbers survive exactly when the test says they are not stale -/
theorem withVocab_nums {ι φ : Type} [DecidableEq ι] (src r : IL ι φ) (v2 : Vocab ι) (h : withVocab .repaired src v2 = .ok r) :
    r.nums = (if ctorStaleNumbersBranch true (src.vocab.map (fun _ => 0)) (decide (src.vocab ≠ some v2)) (src.nums.map (fun _ => 0)) = 0
              then none else src.nums) := by
  unfold withVocab at h
  simp only at h
  by_cases hv : src.vocab = some v2
  · simp only [hv, if_true, Except.ok.injEq] at h
    subst h
    simp [ctorStaleNumbersBranch, hv]
  · simp only [hv, if_false] at h
    cases hsv : src.vocab with
    | none =>
      simp only [hsv, Except.ok.injEq] at h
      subst h
      simp [ctorStaleNumbersBranch, hsv]
    | some v =>
      cases hsn : src.nums with
      | none =>
        simp only [hsv, hsn, Except.ok.injEq] at h
        subst h
        simp [ctorStaleNumbersBranch, hsn]
      | some n =>
        simp only [hsv, hsn] at h
        cases hi : idsOf src with
        | error e => simp [hi] at h
        | ok i =>
          simp only [hi, Except.ok.injEq] at h
          subst h
          have : ¬ v = v2 := fun hh => hv (by rw [hsv, hh])
          simp [ctorStaleNumbersBranch, this]

/-- the source's identifiers are resolved (before its numbers are dropped) exactly when the caller supplies none -/
theorem resolve_iff (itemIds : LK.Py.V) (noIdAlias : Bool) :
    ctorResolveIdsBranch itemIds noIdAlias = 0 ↔ (itemIds.isNone ∧ noIdAlias) := by
  cases itemIds <;> cases noIdAlias <;> simp [ctorResolveIdsBranch]

/-- supplied identifiers make copied numbers stale exactly when there is a source that had some (`copyIds`: `nums := none`) -/
theorem clear_numbers_iff (source srcNumbers : LK.Py.V) :
    ctorClearNumbersBranch source srcNumbers = 0 ↔ (source.isSome ∧ srcNumbers.isSome) := by
  cases source <;> cases srcNumbers <;> simp [ctorClearNumbersBranch]

/-- **supplied identifiers are never cleared:** the numbers branch deletes identifiers only when the caller gave none
    (`copyBoth .repaired` keeps `x`; `copyNums` drops the source's) -/
theorem supplied_ids_kept (x : Int) (source srcIds : LK.Py.V) : ctorClearIdsBranch (some x) source srcIds = 1 := by
  simp [ctorClearIdsBranch]

theorem clear_ids_iff (source srcIds : LK.Py.V) : ctorClearIdsBranch none source srcIds = 0 ↔ (source.isSome ∧ srcIds.isSome) := by
  cases source <;> cases srcIds <;> simp [ctorClearIdsBranch]

/-- **cached ranks are kept exactly when the length is unchanged** — the model's `keepRanks .repaired` -/
theorem keepRanks_eq {ι φ : Type} (src : IL ι φ) (n : Nat) :
    keepRanks .repaired src n = (if ctorDropRanksBranch true (n : Int) (src.len : Int) = 0 then none else src.ranks) := by
  unfold keepRanks ctorDropRanksBranch
  by_cases h : n = src.len
  · simp [h]
  · have : ¬ ((n : Int) = (src.len : Int)) := by omega
    simp [h, this]

theorem ranks_kept_without_list_source (a b : Int) : ctorDropRanksBranch false a b = 1 := by simp [ctorDropRanksBranch]

/-! ### `ranks()` -/

/-- **an unordered list has no ranks, whatever is stored** (a copy made with `ordered=False` carries its source's stored ranks) -/
theorem ranks_none_unordered (stored : LK.Py.V) : ranksDispatch false stored = none := by simp [ranksDispatch]

/-- an ordered list returns the stored ranks when there are some, and the computed 1 … n (code 0) otherwise — never nothing -/
theorem ranks_ordered (stored : LK.Py.V) : ranksDispatch true stored = some (stored.getD 0) := by
  cases stored <;> simp [ranksDispatch]

/-- the code's dispatch is the model's `ranksOf`: ranks exist exactly for ordered lists, and stored ranks are what is returned -/
theorem ranks_dispatch {ι φ : Type} (il : LK.IL.IL ι φ) (code : List Nat → Int) :
    ((LK.IL.ranksOf il).isSome = (ranksDispatch il.ordered (il.ranks.map code)).isSome) ∧
    (∀ r, il.ranks = some r → il.ordered = true → LK.IL.ranksOf il = some r ∧ ranksDispatch il.ordered (il.ranks.map code) = some (code r)) := by
  constructor
  · cases h : il.ordered <;> cases h2 : il.ranks <;> simp [LK.IL.ranksOf, ranksDispatch, h, h2]
  · intro r hr ho
    simp [LK.IL.ranksOf, ranksDispatch, hr, ho]

/-- a selector that is neither a scalar nor a slice is read as an array of whatever it holds — Booleans stay a mask, integers stay
    positions; no type is forced on it -/
theorem selector_read_as_given : selectorConversionOptions = 0 := by decide

end LK.Gen.GuardsC16
