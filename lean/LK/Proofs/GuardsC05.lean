import LK.Generated.GuardsC05
/-!
# C05 / C11 — which sampling path `sample_records` / `sample_users` take
Path codes (the calls themselves, arguments included, are the atoms of the translation, so a call that no longer forwards
`test_only` or the generator is no longer recognised): 0 one sample, 1 fall back to cross-folding (with the same generator),
2 disjoint samples, 3 independent samples.
-/
set_option linter.unusedSimpArgs false
namespace LK.Gen.GuardsC05

def pathSpec (repeats : LK.Py.V) (disjoint tooMany : Bool) : LK.Py.V :=
  match repeats with
  | none => some 0
  | some _ => if disjoint && tooMany then some 1 else if disjoint then some 2 else some 3

/-- `sample_records`: no repeat count ⇒ one sample; a disjoint request that does not fit ⇒ cross-folding with the caller's options and
    generator; otherwise disjoint or independent samples — for every repeat count, 0 included -/
theorem sampleRecordsPath_spec (repeats : LK.Py.V) (disjoint tooMany : Bool) :
    sampleRecordsPath repeats disjoint tooMany = pathSpec repeats disjoint tooMany := by
  cases repeats <;> cases disjoint <;> cases tooMany <;> simp [sampleRecordsPath, pathSpec, LK.Py.truthy]

/-- `sample_users` decides in another order but takes the same path -/
theorem sampleUsersPath_spec (repeats : LK.Py.V) (disjoint tooMany : Bool) :
    sampleUsersPath repeats disjoint tooMany = pathSpec repeats disjoint tooMany := by
  cases repeats <;> cases disjoint <;> cases tooMany <;> simp [sampleUsersPath, pathSpec, LK.Py.truthy]

theorem samplers_agree (repeats : LK.Py.V) (disjoint tooMany : Bool) :
    sampleRecordsPath repeats disjoint tooMany = sampleUsersPath repeats disjoint tooMany := by
  rw [sampleRecordsPath_spec, sampleUsersPath_spec]


/-! ### time bounds of `filter_interactions` (what `split_global_time` builds its training side with) -/

/-- a time bound is applied exactly when it is given — a bound of 0 (relative offsets, the epoch) is a bound -/
theorem time_bound_applied (k : Int) :
    minTimeApplied (some k) = 0 ∧ maxTimeApplied (some k) = 0 ∧ minTimeApplied none = 1 ∧ maxTimeApplied none = 1 := by
  simp [minTimeApplied, maxTimeApplied]

/-- the timestamp column is required exactly when some bound is given -/
theorem time_filter_requested_iff (a b : LK.Py.V) : timeFilterRequested a b = 0 ↔ (a.isSome ∨ b.isSome) := by
  cases a <;> cases b <;> simp [timeFilterRequested]

end LK.Gen.GuardsC05
