import LK.Generated.CandC03
/-!
# C03 — the translated unrated-items candidate selector keeps exactly the training items that are not in the user's history
-/
set_option linter.unusedSimpArgs false
namespace LK.CandOps
open LK.Gen.CandC03

theorem indexMaskInt_filter (h : List Int) : indexMaskInt h (geZero h) = h.filter (fun k => decide (0 ≤ k)) := by
  induction h with
  | nil => rfl
  | cons k h ih =>
    by_cases hk : 0 ≤ k
    · simp only [geZero, List.map_cons, hk, decide_true, indexMaskInt, List.filter_cons, if_true] at ih ⊢; rw [ih]
    · simp only [geZero, List.map_cons, hk, decide_false, indexMaskInt, List.filter_cons] at ih ⊢; simpa using ih

theorem indexMask_map {α} (xs : List α) (p : α → Bool) : indexMask xs (xs.map p) = xs.filter p := by
  induction xs with
  | nil => rfl
  | cons x xs ih =>
    cases hp : p x
    · simp only [List.map_cons, hp, indexMask, List.filter_cons, ih]; simp
    · simp only [List.map_cons, hp, indexMask, List.filter_cons, ih]; simp

theorem setFalseAt_nonneg (n : Nat) (qs : List Int) (h0 : ∀ k ∈ qs, 0 ≤ k) (hn : ∀ k ∈ qs, k < n) :
    setFalseAt (List.replicate n true) qs = (List.range n).map (fun (r : Nat) => !decide ((r : Int) ∈ qs)) := by
  have key : ∀ (qs : List Int) (acc : List Bool), (∀ k ∈ qs, 0 ≤ k) → (∀ k ∈ qs, k < acc.length) → ∀ j : Nat,
      (qs.foldl (fun a i => if 0 ≤ i then a.set i.toNat false else a.set (a.length - i.natAbs) false) acc)[j]?
        = (if (j : Int) ∈ qs then (if j < acc.length then some false else none) else acc[j]?) := by
    intro qs
    induction qs with
    | nil => intro acc _ _ j; simp
    | cons k qs ih =>
      intro acc h0 hn j
      have hk0 : 0 ≤ k := h0 k (by simp)
      have hkn : k < acc.length := hn k (by simp)
      simp only [List.foldl_cons, hk0, if_true]
      rw [ih (acc.set k.toNat false) (fun k' hk' => h0 k' (by simp [hk'])) (by intro k' hk'; rw [List.length_set]; exact hn k' (by simp [hk'])) j]
      by_cases hj : (j : Int) ∈ qs
      · simp [hj, List.length_set]
      · by_cases hjk : (j : Int) = k
        · have hjt : k.toNat = j := by omega
          have : j < acc.length := by omega
          simp [hj, hjk, List.getElem?_set, hjt, this]
        · have hne : ¬ (k.toNat = j) := by omega
          simp [hj, hjk, List.getElem?_set, hne]
  apply List.ext_getElem?
  intro j
  unfold setFalseAt
  rw [key qs (List.replicate n true) h0 (by simpa using hn) j]
  by_cases hj : j < n
  · by_cases hm : (j : Int) ∈ qs
    · simp [hm, hj, List.getElem?_range hj]
    · simp [hm, hj, List.getElem?_range hj, List.getElem?_replicate]
  · have hm : (j : Int) ∉ qs := fun h => by have := hn _ h; omega
    simp [hm, hj, List.getElem?_replicate]

/-- **C03 (candidate set):** without a history every training item is a candidate; with one, exactly the training items that do not occur
    in it — history items unknown to the model (number −1) are ignored and exclude nothing -/
theorem unratedCandidatesT_spec (n : Nat) (hist : Option (List Int)) (hn : ∀ h, hist = some h → ∀ k ∈ h, k < n) :
    unratedCandidatesT n hist
      = (match hist with
         | none => List.range n
         | some h => (List.range n).filter (fun i => !decide ((i : Int) ∈ h))) := by
  cases hist with
  | none => rfl
  | some h =>
    have hn' := hn h rfl
    unfold unratedCandidatesT
    simp only [indexMaskInt_filter]
    rw [setFalseAt_nonneg n _ (fun k hk => by simpa using (List.mem_filter.mp hk).2) (fun k hk => hn' k (List.mem_filter.mp hk).1)]
    rw [indexMask_map]
    apply List.filter_congr
    intro i _
    have : ((i : Int) ∈ h.filter (fun k => decide (0 ≤ k))) ↔ ((i : Int) ∈ h) := by
      simp [List.mem_filter]
    simp [this]

end LK.CandOps
