import LK.Model.RankMetrics
import Mathlib.Algebra.Order.Field.Rat
import Mathlib.Tactic.Linarith
import Mathlib.Tactic.Ring
import Mathlib.Tactic.Positivity
/-! Lemmas for C06: weighted position sums, swaps, bounds. -/
namespace LK.Metric

/-- changing one entry changes the weighted sum by that position's weight times the difference -/
theorem wsumFrom_set (w : Nat → Q) (s : Nat) (g : List Q) (i : Nat) (hi : i < g.length) (x : Q) :
    wsumFrom w s (g.set i x) = wsumFrom w s g + w (s + i) * (x - g[i]) := by
  induction g generalizing s i with
  | nil => simp at hi
  | cons y ys ih =>
    cases i with
    | zero => simp [wsumFrom]; ring
    | succ i =>
      simp only [List.set_cons_succ, wsumFrom, List.getElem_cons_succ]
      rw [ih (s + 1) i (by simpa using hi)]
      have : s + 1 + i = s + (i + 1) := by omega
      rw [this]; ring

/-- exchanging entries `p < q` -/
def swapAt {α} (l : List α) (p q : Nat) (hp : p < l.length) (hq : q < l.length) : List α :=
  (l.set p l[q]).set q l[p]

theorem wsumFrom_swap (w : Nat → Q) (s : Nat) (g : List Q) (p q : Nat) (hp : p < g.length) (hq : q < g.length)
    (hpq : p ≠ q) :
    wsumFrom w s (swapAt g p q hp hq) = wsumFrom w s g + (w (s + p) - w (s + q)) * (g[q] - g[p]) := by
  unfold swapAt
  rw [wsumFrom_set w s _ q (by simpa using hq), wsumFrom_set w s g p hp]
  have : (g.set p g[q])[q]'(by simpa using hq) = g[q] := by
    rw [List.getElem_set_of_ne hpq]
  rw [this]; ring

/-- **rank-sensitive monotonicity (core):** moving a larger gain to an earlier position with at least
    as large a weight never lowers the weighted sum -/
theorem wsumFrom_swap_mono (w : Nat → Q) (s : Nat) (g : List Q) (p q : Nat) (hp : p < g.length) (hq : q < g.length)
    (hpq : p < q) (hw : w (s + q) ≤ w (s + p)) (hg : g[p] ≤ g[q]) :
    wsumFrom w s g ≤ wsumFrom w s (swapAt g p q hp hq) := by
  rw [wsumFrom_swap w s g p q hp hq (Nat.ne_of_lt hpq)]
  have : 0 ≤ (w (s + p) - w (s + q)) * (g[q] - g[p]) := mul_nonneg (by linarith) (by linarith)
  linarith

theorem wsumFrom_nonneg (w : Nat → Q) (s : Nat) (g : List Q) (hw : ∀ p, 0 ≤ w p) (hg : ∀ x ∈ g, 0 ≤ x) :
    0 ≤ wsumFrom w s g := by
  induction g generalizing s with
  | nil => simp [wsumFrom]
  | cons x xs ih =>
    simp only [wsumFrom]
    have h1 : 0 ≤ w s * x := mul_nonneg (hw s) (hg x (by simp))
    have h2 := ih (s + 1) (fun y hy => hg y (by simp [hy]))
    linarith

/-- a masked sum of antitone non-negative weights is at most the sum of the first `count` weights -/
theorem masked_le_prefix (w : Nat → Q) (hanti : ∀ a b, a ≤ b → w b ≤ w a) (s : Nat) (bs : List Bool) :
    wsumFrom w s (indicator bs) ≤ wsumFrom w s (List.replicate (countTrue bs) 1) := by
  induction bs generalizing s with
  | nil => simp [indicator, countTrue, wsumFrom]
  | cons b bs ih =>
    cases b with
    | false =>
      simp only [indicator, List.map_cons, wsumFrom, countTrue, List.filter_cons] at ih ⊢
      simp only [Bool.false_eq_true, if_false, mul_zero, zero_add, id]
      have h1 := ih (s + 1)
      -- shifting the prefix one step to the left can only increase it
      have hshift : ∀ (n t : Nat), wsumFrom w (t + 1) (List.replicate n 1) ≤ wsumFrom w t (List.replicate n 1) := by
        intro n
        induction n with
        | zero => intro t; simp [wsumFrom]
        | succ n ihn =>
          intro t
          simp only [List.replicate_succ, wsumFrom, mul_one]
          have := ihn (t + 1)
          have := hanti t (t + 1) (Nat.le_succ t)
          linarith
      exact le_trans h1 (hshift _ s)
    | true =>
      simp only [indicator, List.map_cons, wsumFrom, countTrue, List.filter_cons] at ih ⊢
      simp only [if_true, id, List.length_cons, List.replicate_succ, wsumFrom, mul_one]
      have := ih (s + 1)
      linarith

/-- a longer prefix of non-negative weights sums to at least as much -/
theorem prefix_mono (w : Nat → Q) (hw : ∀ p, 0 ≤ w p) (s m n : Nat) (h : m ≤ n) :
    wsumFrom w s (List.replicate m 1) ≤ wsumFrom w s (List.replicate n 1) := by
  induction m generalizing s n with
  | zero =>
    simp only [List.replicate_zero, wsumFrom]
    exact wsumFrom_nonneg w s _ hw (by intro x hx; simp [List.mem_replicate] at hx; rw [hx.2]; norm_num)
  | succ m ih =>
    cases n with
    | zero => omega
    | succ n =>
      simp only [List.replicate_succ, wsumFrom, mul_one]
      have := ih (s + 1) n (by omega)
      linarith

#print axioms wsumFrom_swap_mono
#print axioms masked_le_prefix
end LK.Metric

namespace LK.Metric

theorem truncate_eq_take {α} (k : Nat) (L : List α) : truncate (some k) L = L.take k := by
  simp only [truncate]
  split
  · rfl
  · rename_i h; exact (List.take_of_length_le (by omega)).symm

theorem truncate_sublist {α} (k : Option Nat) (L : List α) : (truncate k L).Sublist L := by
  cases k with
  | none => exact List.Sublist.refl _
  | some k => rw [truncate_eq_take]; exact List.take_sublist _ _

theorem truncate_length_le {α} (k : Nat) (L : List α) : (truncate (some k) L).length ≤ k := by
  rw [truncate_eq_take, List.length_take]; exact Nat.min_le_left _ _

/-- binary gains are the indicator of the relevance mask -/
theorem gain_binary_eq (o : Option Q) :
    (match o with | some g => if true = true then (1 : Q) else g | none => 0) = (if o.isSome then 1 else 0) := by
  cases o <;> simp

theorem gainsOf_binary (k : Option Nat) (L : List Nat) (T : List (Nat × Q)) :
    gainsOf true k L T = indicator (good k L T) := by
  unfold gainsOf indicator good
  rw [List.map_map]
  apply List.map_congr_left
  intro i _
  exact gain_binary_eq (gainOf T i)

/-- relevant recommended items are distinct test items: there are at most |T| of them -/
theorem countTrue_good_le (k : Option Nat) (L : List Nat) (T : List (Nat × Q)) (hL : L.Nodup) :
    countTrue (good k L T) ≤ T.length := by
  have hsub : ((truncate k L).filter (isRel T)).Nodup := (hL.sublist (truncate_sublist k L)).sublist List.filter_sublist
  have hsubset : ((truncate k L).filter (isRel T)) ⊆ T.map (·.1) := by
    intro i hi
    have := (List.mem_filter.mp hi).2
    simp only [isRel, gainOf, Option.isSome_map] at this
    obtain ⟨e, he⟩ := Option.isSome_iff_exists.mp this
    have hm := List.mem_of_find?_eq_some he
    have hk := List.find?_some he
    simp only [beq_iff_eq] at hk
    exact List.mem_map.mpr ⟨e, hm, hk⟩
  have := List.Nodup.length_le_of_subset hsub hsubset
  have hcount : countTrue (good k L T) = ((truncate k L).filter (isRel T)).length := by
    simp only [countTrue, good]
    induction truncate k L with
    | nil => rfl
    | cons a as ih =>
      simp only [List.map_cons, List.filter_cons]
      cases isRel T a <;> simp [ih]
  rw [hcount]; simpa using this

theorem countTrue_le_length (bs : List Bool) : countTrue bs ≤ bs.length := List.length_filter_le _ _

theorem countTrue_good_le_cap (k : Option Nat) (L : List Nat) (T : List (Nat × Q)) (hL : L.Nodup) :
    countTrue (good k L T) ≤ nrelCap k T := by
  have c1 := countTrue_good_le k L T hL
  cases k with
  | none => simpa [nrelCap] using c1
  | some k =>
    have c2 : countTrue (good (some k) L T) ≤ k :=
      Nat.le_trans (countTrue_le_length _) (by simp only [good, List.length_map]; exact truncate_length_le k L)
    simp only [nrelCap]
    split <;> omega

/-- antitone, non-negative rank weights from a non-decreasing discount -/
theorem dweight_nonneg (disc : Nat → Q) (p : Nat) : 0 ≤ dweight disc p := by
  unfold dweight
  split
  · norm_num
  · rename_i h; have : (1 : Q) ≤ disc (p + 1) := not_lt.mp h; positivity

theorem dweight_antitone (disc : Nat → Q) (hmono : ∀ a b, a ≤ b → disc a ≤ disc b) (a b : Nat) (hab : a ≤ b) :
    dweight disc b ≤ dweight disc a := by
  unfold dweight
  have hd := hmono (a + 1) (b + 1) (by omega)
  by_cases ha : disc (a + 1) < 1
  · simp only [ha, if_true]
    by_cases hb : disc (b + 1) < 1
    · simp [hb]
    · simp only [hb, if_false]
      have : (1 : Q) ≤ disc (b + 1) := not_lt.mp hb
      exact one_div_le_one_div_of_le (by norm_num) this
  · have ha1 : (1 : Q) ≤ disc (a + 1) := not_lt.mp ha
    have hb : ¬ disc (b + 1) < 1 := by intro h; linarith
    simp only [ha, hb, if_false]
    exact one_div_le_one_div_of_le (by linarith) hd

/-- **C06 (binary nDCG ∈ [0, 1]):** for every list without repeats, truth set and cutoff -/
theorem ndcg_binary_bounds (k : Option Nat) (disc : Nat → Q) (hmono : ∀ a b, a ≤ b → disc a ≤ disc b)
    (L : List Nat) (T : List (Nat × Q)) (hL : L.Nodup) (v : Q) (h : ndcg k disc true L T = some v) :
    0 ≤ v ∧ v ≤ 1 := by
  simp only [ndcg, if_true, qdiv] at h
  have hanti := dweight_antitone disc hmono
  have hnn := dweight_nonneg disc
  by_cases hz : fixedDcg disc (nrelCap k T) = 0
  · simp [hz] at h
  · simp only [hz, if_false, Option.some.injEq] at h
    subst h
    rw [gainsOf_binary]
    have h1 := masked_le_prefix (dweight disc) hanti 0 (good k L T)
    have h2 := prefix_mono (dweight disc) hnn 0 _ _ (countTrue_good_le_cap k L T hL)
    have hreal_nonneg : 0 ≤ arrayDcg disc (indicator (good k L T)) := by
      apply wsumFrom_nonneg _ _ _ hnn
      intro x hx
      simp only [indicator, List.mem_map] at hx
      obtain ⟨b, _, rfl⟩ := hx
      cases b <;> norm_num
    have hideal_pos : 0 < fixedDcg disc (nrelCap k T) := by
      have : 0 ≤ fixedDcg disc (nrelCap k T) := wsumFrom_nonneg _ _ _ hnn (by
        intro x hx; simp [List.mem_replicate] at hx; rw [hx.2]; norm_num)
      exact lt_of_le_of_ne this (Ne.symm hz)
    constructor
    · exact div_nonneg hreal_nonneg (le_of_lt hideal_pos)
    · rw [div_le_one hideal_pos]
      exact le_trans h1 h2

/-- **C06 (recall ∈ [0, 1])** -/
theorem recall_bounds (k : Option Nat) (L : List Nat) (T : List (Nat × Q)) (hL : L.Nodup) (v : Q)
    (h : recall k L T = some v) : 0 ≤ v ∧ v ≤ 1 := by
  simp only [recall, qdiv] at h
  by_cases hz : ((nrelCap k T : Nat) : Q) = 0
  · simp [hz] at h
  · simp only [hz, if_false, Option.some.injEq] at h
    subst h
    have hc : ((countTrue (good k L T) : Nat) : Q) ≤ ((nrelCap k T : Nat) : Q) := by
      exact_mod_cast countTrue_good_le_cap k L T hL
    have hpos : (0 : Q) < ((nrelCap k T : Nat) : Q) := lt_of_le_of_ne (by positivity) (Ne.symm hz)
    exact ⟨by positivity, by rw [div_le_one hpos]; exact hc⟩

#print axioms ndcg_binary_bounds
#print axioms recall_bounds
end LK.Metric
