import LK.Generated.Chunking
import Mathlib.Tactic.SplitIfs
/-!
C11 / C12 — properties of the *generated* chunking function: the `range(0, n, chunk_size)` loops of the
ALS / k-NN fan-outs cover every row exactly once, whatever `n` is.
-/
namespace LK.Gen.Chunking

/-- closes arithmetic goals about `chunkCreate` whatever mixture of `if`, `min`, `max` the generated text uses, so that a
    behaviour-preserving rewrite of the Python function does not break the obligation (up to three levels of `if`) -/
macro "chunk_arith" : tactic => `(tactic|
  (unfold chunkCreate MIN_CHUNKABLE TGT_CHUNK_LIMIT MIN_CHUNK_SIZE MAX_CHUNK_SIZE
   (try split_ifs) <;> (try dsimp only) <;> (try split_ifs) <;> (try dsimp only) <;> (try split_ifs) <;> (try dsimp only) <;> omega))

theorem chunk_total (n : Nat) : (chunkCreate n).1 = n := by chunk_arith

/-- **C11/C12:** whenever there is work, the chunk size is positive, so `range(0, n, chunk_size)` is well defined -/
theorem chunk_size_pos (n : Nat) (h : 0 < n) : 0 < (chunkCreate n).2.1 := by chunk_arith

theorem chunk_size_le (n : Nat) : (chunkCreate n).2.1 ≤ max n 4000 := by chunk_arith

/-- start offsets of `range(0, n, size)` -/
def starts (n size : Nat) : List Nat := (List.range ((n + size - 1) / size)).map (· * size)

/-- each row index below `n` lies in the chunk `[s, min(s+size, n))` of exactly one start `s` -/
theorem row_in_unique_chunk (n size : Nat) (hs : 0 < size) (i : Nat) (hi : i < n) :
    ∃ s ∈ starts n size, s ≤ i ∧ i < min (s + size) n ∧
      ∀ s' ∈ starts n size, s' ≤ i → i < min (s' + size) n → s' = s := by
  refine ⟨i / size * size, ?_, ?_, ?_, ?_⟩
  · unfold starts
    refine List.mem_map.2 ⟨i / size, List.mem_range.2 ?_, rfl⟩
    apply (Nat.div_lt_iff_lt_mul hs).2
    have hd := Nat.div_add_mod (n + size - 1) size
    have hm := Nat.mod_lt (n + size - 1) hs
    have : (n + size - 1) / size * size = size * ((n + size - 1) / size) := Nat.mul_comm _ _
    omega
  · exact Nat.div_mul_le_self i size
  · have hd := Nat.div_add_mod i size
    have hm := Nat.mod_lt i hs
    have : i / size * size = size * (i / size) := Nat.mul_comm _ _
    omega
  · intro s' hs' hle hlt
    unfold starts at hs'
    obtain ⟨k, _, rfl⟩ := List.mem_map.1 hs'
    have hk : i / size = k := by
      apply Nat.div_eq_of_lt_le
      · exact hle
      · have : (k + 1) * size = k * size + size := by rw [Nat.add_mul, Nat.one_mul]
        omega
    rw [hk]

#print axioms chunk_size_pos
#print axioms row_in_unique_chunk
end LK.Gen.Chunking
