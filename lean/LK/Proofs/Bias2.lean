import LK.Proofs.Bias
/-! C08 — user offsets, score assembly, history-based offsets, popularity counts. -/
namespace LK.Bias

/-- generic form of the accumulate-then-divide step used for both entity types -/
theorem damped_eq_def (n : Nat) (damp : Q) (rs : List Rating) (key : Rating → Nat) (f : Rating → Q)
    (hb : ∀ x ∈ rs, key x < n) (j : Nat) (hj : j < n) :
    (List.zipWith safeDiv (addAt n 0 (rs.map key) (rs.map f)) (addAt n damp (rs.map key) (rs.map (fun _ => 1)))).getD j 0
      = safeDiv (sumQ ((rs.filter (fun x => key x == j)).map f)) (((rs.filter (fun x => key x == j)).length : Q) + damp) := by
  have hlenC : (addAt n damp (rs.map key) (rs.map (fun _ => (1 : Q)))).length = n := by
    unfold addAt; rw [foldl_addAt_length]; simp
  have hlenS : (addAt n 0 (rs.map key) (rs.map f)).length = n := by
    unfold addAt; rw [foldl_addAt_length]; simp
  have hidx : ∀ k ∈ rs.map key, k < n := by
    intro k hk; obtain ⟨x, hx, rfl⟩ := List.mem_map.mp hk; exact hb x hx
  rw [List.getD_eq_getElem?_getD, List.getElem?_zipWith]
  have hc := addAt_get n damp (rs.map key) (rs.map (fun _ => (1 : Q))) (by simp) hidx j hj
  have hs := addAt_get n 0 (rs.map key) (rs.map f) (by simp) hidx j hj
  rw [zip_map_filter rs key (fun _ => 1) j, sumQ_const_one] at hc
  rw [zip_map_filter rs key f j] at hs
  have hs' : (addAt n 0 (rs.map key) (rs.map f))[j]? = some (sumQ ((rs.filter (fun x => key x == j)).map f)) := by
    rw [List.getD_eq_getElem?_getD] at hs
    rw [List.getElem?_eq_getElem (by rw [hlenS]; exact hj)] at hs ⊢
    simp only [Option.getD_some] at hs
    rw [hs, zero_add]
  have hc' : (addAt n damp (rs.map key) (rs.map (fun _ => (1 : Q))))[j]?
      = some (((rs.filter (fun x => key x == j)).length : Q) + damp) := by
    rw [List.getD_eq_getElem?_getD] at hc
    rw [List.getElem?_eq_getElem (by rw [hlenC]; exact hj)] at hc ⊢
    simp only [Option.getD_some] at hc
    rw [hc, add_comm]
  rw [hs', hc']
  simp

/-- **C08 (user offsets):** computed on ratings centred by the global mean *and* the item offsets -/
theorem userBiases_eq_def (nUsers : Nat) (damp : Q) (ib : Nat → Q) (rs : List Rating) (hb : ∀ x ∈ rs, x.u < nUsers)
    (u : Nat) (hu : u < nUsers) :
    (userBiasesImpl nUsers damp ib rs).getD u 0 = userBiasDef damp ib rs u := by
  unfold userBiasesImpl userBiasDef
  exact damped_eq_def nUsers damp rs (·.u) (fun x => x.r - globalMean rs - ib x.i) hb u hu

/-- an entity without ratings gets a zero offset, whatever the damping -/
theorem no_ratings_zero (damp : Q) (ib : Nat → Q) (rs : List Rating) (u : Nat)
    (h : ∀ x ∈ rs, x.u ≠ u) : userBiasDef damp ib rs u = 0 := by
  unfold userBiasDef
  have : rs.filter (fun x => x.u == u) = [] := by
    apply List.filter_eq_nil_iff.mpr
    intro x hx; simpa using h x hx
  simp [this, sumQ, safeDiv]

/-- **C08 (history offsets):** a supplied history yields the same damped mean as if those ratings had
    been the user's training ratings -/
theorem historyBias_eq_def (g damp : Q) (ib : Nat → Q) (hist : List (Nat × Q)) (hd : 0 ≤ damp) :
    historyBias g damp ib (hist.map (fun h => (some h.1, h.2)))
      = safeDiv (sumQ (hist.map (fun h => h.2 - g - ib h.1))) ((hist.length : Q) + damp) := by
  unfold historyBias safeDiv
  simp only [List.map_map, List.length_map]
  have hmap : ∀ (F : Option Nat × Q → Q), (∀ h : Nat × Q, F (some h.1, h.2) = h.2 - g - ib h.1) →
      hist.map (F ∘ fun h : Nat × Q => (some h.1, h.2)) = hist.map (fun h => h.2 - g - ib h.1) := by
    intro F hF; apply List.map_congr_left; intro h _; exact hF h
  rw [hmap _ (fun h => rfl)]
  have hlen : (0 : Q) ≤ (hist.length : Q) := by exact_mod_cast Nat.zero_le _
  by_cases hz : (hist.length : Q) + damp = 0
  · have : ¬ ((hist.length : Q) + damp > 0) := by rw [hz]; exact lt_irrefl 0
    simp [hz]
  · have hpos : (hist.length : Q) + damp > 0 := lt_of_le_of_ne (by linarith) (Ne.symm hz)
    simp [hz, hpos]

/-- **C08 (score assembly):** the score is the sum of the applicable offsets; unknown items contribute 0 -/
theorem score_known (g : Q) (ib : Nat → Q) (ub : Q) (i : Nat) : score g ib ub (some i) = g + ib i + ub := rfl
theorem score_unknown_item (g : Q) (ib : Nat → Q) (ub : Q) : score g ib ub none = g + ub := by simp [score]

#print axioms userBiases_eq_def
#print axioms historyBias_eq_def
end LK.Bias
