import LK.Generated.ArrowC17
import LK.Generated.ArrowScalarC17
import LK.Proofs.Attr
import LK.Proofs.AttrVec
/-!
# C17 — `_expand_and_align_list_array`, as translated from the source, is the model's `expandAlign`
-/
set_option linter.unusedSimpArgs false
namespace LK.ArrowOps
open LK.Attr LK.Gen.ArrowC17

/-! ### dropping the null inputs -/

theorem indexMask_valid {β} (rows : List Nat) (lists : List (Option β)) (hl : rows.length = lists.length) :
    indexMask rows (isValid lists) = (dropNulls (rows.zip lists)).map (·.1) := by
  induction rows generalizing lists with
  | nil => cases lists <;> rfl
  | cons r rows ih =>
    cases lists with
    | nil => simp at hl
    | cons l lists =>
      have hl' : rows.length = lists.length := by simpa using hl
      cases l with
      | none => simpa [isValid, indexMask, dropNulls] using ih lists hl'
      | some v => simpa [isValid, indexMask, dropNulls] using ih lists hl'

theorem dropNull_zip {β} (rows : List Nat) (lists : List (Option β)) (hl : rows.length = lists.length) :
    dropNull lists = (dropNulls (rows.zip lists)).map (·.2) := by
  induction rows generalizing lists with
  | nil => cases lists with
    | nil => rfl
    | cons _ _ => simp at hl
  | cons r rows ih =>
    cases lists with
    | nil => simp at hl
    | cons l lists =>
      have hl' : rows.length = lists.length := by simpa using hl
      cases l with
      | none => simpa [dropNull, dropNulls] using ih lists hl'
      | some v => simpa [dropNull, dropNulls] using ih lists hl'

theorem indexMask_all {α} (rows : List α) (m : List Bool) (hl : rows.length = m.length) (h : npAll m = true) : indexMask rows m = rows := by
  induction rows generalizing m with
  | nil => cases m <;> rfl
  | cons r rows ih =>
    cases m with
    | nil => simp at hl
    | cons b m =>
      have hl' : rows.length = m.length := by simpa using hl
      simp only [npAll, List.all_cons, id, Bool.and_eq_true] at h
      obtain ⟨hb, hm⟩ := h
      subst hb
      simp only [indexMask]
      rw [ih m hl' (by simpa [npAll] using hm)]

/-! ### sorting by row -/

theorem ascending_pairwise (rows : List Nat) (hnd : rows.Nodup) (h : ascending rows = true) : rows.Pairwise (· < ·) := by
  induction rows with
  | nil => exact List.Pairwise.nil
  | cons a rest ih =>
    cases rest with
    | nil => simp
    | cons b rest' =>
      simp only [ascending, Bool.and_eq_true, decide_eq_true_eq] at h
      have ihr := ih (List.nodup_cons.mp hnd).2 h.2
      refine List.Pairwise.cons ?_ ihr
      intro c hc
      cases hc with
      | head => exact h.1
      | tail _ hc' =>
        have := (List.pairwise_cons.mp ihr).1 c hc'
        omega

theorem sorted_or_sort {β} (ps : List (Nat × β)) (hnd : (ps.map (·.1)).Nodup) :
    (if ascending (ps.map (·.1)) then (ps.map (·.1), ps.map (·.2)) else sortByRows (ps.map (·.1)) (ps.map (·.2)))
      = ((sortPairs ps).map (·.1), (sortPairs ps).map (·.2)) := by
  have hz : (ps.map (·.1)).zip (ps.map (·.2)) = ps := by
    induction ps with
    | nil => rfl
    | cons p ps ih => simp only [List.map_cons, List.zip_cons_cons]; rw [ih (List.nodup_cons.mp (by simpa using hnd)).2]
  by_cases h : ascending (ps.map (·.1)) = true
  · have hp := ascending_pairwise _ hnd h
    have : sortPairs ps = ps := by
      apply sortBy_of_strict
      rw [List.pairwise_map] at hp
      exact hp.imp (fun hab => by simp; omega)
    simp [h, this]
  · simp [h, sortByRows, hz]

/-! ### sizes, offsets, mask -/

theorem getD_foldl_set (kvs : List (Nat × Nat)) (acc : List Nat) (j : Nat)
    (hnd : (kvs.map (·.1)).Nodup) (hr : ∀ k ∈ kvs.map (·.1), k < acc.length) :
    (kvs.foldl (fun a jv => a.set jv.1 jv.2) acc).getD j 0 = ((kvs.find? (·.1 == j)).map (·.2)).getD (acc.getD j 0) := by
  induction kvs generalizing acc with
  | nil => rfl
  | cons kv kvs ih =>
    obtain ⟨k, v⟩ := kv
    simp only [List.map_cons, List.nodup_cons] at hnd
    have hk : k < acc.length := hr k (by simp)
    have hr' : ∀ k' ∈ kvs.map (·.1), k' < (acc.set k v).length := by
      intro k' hk'; rw [List.length_set]; exact hr k' (by simp [hk'])
    simp only [List.foldl_cons]
    rw [ih (acc.set k v) hnd.2 hr']
    by_cases hkj : k = j
    · subst hkj
      have hnone : kvs.find? (fun x => x.1 == k) = none := by
        rw [List.find?_eq_none]
        intro x hx hxe
        have : x.1 = k := by simpa using hxe
        exact hnd.1 (by rw [← this]; exact List.mem_map_of_mem hx)
      simp [List.find?, hnone, List.getD_eq_getElem?_getD, List.getElem?_set, hk]
    · have : (k == j) = false := by simpa using hkj
      simp [List.find?, this, List.getD_eq_getElem?_getD, List.getElem?_set, hkj]

theorem foldl_set_length (kvs : List (Nat × Nat)) (acc : List Nat) : (kvs.foldl (fun a jv => a.set jv.1 jv.2) acc).length = acc.length := by
  induction kvs generalizing acc with
  | nil => rfl
  | cons kv kvs ih => simp only [List.foldl_cons]; rw [ih]; simp

theorem nodup_map_succ (l : List Nat) (h : l.Nodup) : (l.map (· + 1)).Nodup := by
  induction l with
  | nil => exact List.nodup_nil
  | cons a l ih =>
    have ⟨h1, h2⟩ := List.nodup_cons.mp h
    simp only [List.map_cons, List.nodup_cons]
    refine ⟨?_, ih h2⟩
    intro hm
    obtain ⟨b, hb, hbe⟩ := List.mem_map.mp hm
    have : b = a := by omega
    exact h1 (this ▸ hb)

/-- the scattered sizes: entry `j + 1` holds the length of the list supplied for row `j`, entry 0 and the entries of rows without a
    list hold 0 -/
theorem sizes_getD {α} (n : Nat) (qs : List (Nat × List α)) (hnd : (qs.map (·.1)).Nodup) (hr : ∀ r ∈ qs.map (·.1), r < n) (j : Nat) :
    (scatterLens n (qs.map (·.1)) (valueLengths (qs.map (·.2)))).getD j 0
      = (match j with | 0 => 0 | j' + 1 => rowSize qs j') := by
  unfold scatterLens valueLengths
  have hkeys : ((List.zip ((qs.map (·.1)).map (· + 1)) ((qs.map (·.2)).map List.length)).map (·.1)) = (qs.map (·.1)).map (· + 1) := by
    induction qs with
    | nil => rfl
    | cons q qs ih => simp only [List.map_cons, List.zip_cons_cons]; rw [ih (List.nodup_cons.mp (by simpa using hnd)).2 (fun r hr' => hr r (by simp [List.map_cons]; exact Or.inr (by simpa using hr')))]
  have hnd' : ((List.zip ((qs.map (·.1)).map (· + 1)) ((qs.map (·.2)).map List.length)).map (·.1)).Nodup := by
    rw [hkeys]; exact nodup_map_succ _ hnd
  have hr' : ∀ k ∈ (List.zip ((qs.map (·.1)).map (· + 1)) ((qs.map (·.2)).map List.length)).map (·.1), k < (List.replicate (n + 1) 0).length := by
    rw [hkeys]; intro k hk
    obtain ⟨r, hrm, rfl⟩ := List.mem_map.mp hk
    have := hr r hrm
    simp; omega
  rw [getD_foldl_set _ _ j hnd' hr']
  have hfind : ∀ (qs : List (Nat × List α)),
      ((List.zip ((qs.map (·.1)).map (· + 1)) ((qs.map (·.2)).map List.length)).find? (fun x => x.1 == j)).map (·.2)
        = (match j with | 0 => none | j' + 1 => (qs.find? (fun x => x.1 == j')).map (fun x => x.2.length)) := by
    intro qs
    induction qs with
    | nil => cases j <;> rfl
    | cons q qs ih =>
      simp only [List.map_cons, List.zip_cons_cons, List.find?]
      cases j with
      | zero => simp at ih ⊢; exact ih
      | succ j' =>
        by_cases h : q.1 = j'
        · simp [h]
        · have : (q.1 + 1 == j' + 1) = false := by simp; omega
          have h2 : (q.1 == j') = false := by simpa using h
          simp only [this, h2] at ih ⊢
          exact ih
  rw [hfind qs]
  cases j with
  | zero => simp [List.getD_eq_getElem?_getD]
  | succ j' =>
    simp only [rowSize]
    cases hq : qs.find? (fun x => x.1 == j') with
    | none => simp [List.getD_eq_getElem?_getD, List.getElem?_replicate]; split <;> rfl
    | some q => simp

theorem cumsumFrom_range' (F G : Nat → Nat) (hG : ∀ j, G (j + 1) = G j + F (j + 1)) (len s : Nat) :
    cumsumFrom (G s) ((List.range' (s + 1) len).map F) = (List.range' (s + 1) len).map G := by
  induction len generalizing s with
  | zero => rfl
  | succ len ih =>
    simp only [List.range'_succ, List.map_cons, cumsumFrom]
    rw [← hG s, ih (s + 1)]

theorem sum_range_succ (f : Nat → Nat) (r : Nat) : ((List.range (r + 1)).map f).sum = ((List.range r).map f).sum + f r := by
  rw [List.range_succ, List.map_append, List.sum_append]; simp

theorem offsets_eq {α} (n : Nat) (qs : List (Nat × List α)) (hnd : (qs.map (·.1)).Nodup) (hr : ∀ r ∈ qs.map (·.1), r < n) :
    cumsum (scatterLens n (qs.map (·.1)) (valueLengths (qs.map (·.2))))
      = (List.range (n + 1)).map (fun r => ((List.range r).map (rowSize qs)).sum) := by
  have hlen : (scatterLens n (qs.map (·.1)) (valueLengths (qs.map (·.2)))).length = n + 1 := by
    unfold scatterLens; rw [foldl_set_length]; simp
  have hs : scatterLens n (qs.map (·.1)) (valueLengths (qs.map (·.2)))
      = (List.range (n + 1)).map (fun j => match j with | 0 => 0 | j' + 1 => rowSize qs j') := by
    apply List.ext_getElem?
    intro j
    by_cases hj : j < n + 1
    · have h1 := sizes_getD n qs hnd hr j
      rw [List.getD_eq_getElem?_getD] at h1
      rw [List.getElem?_eq_getElem (by rw [hlen]; exact hj)] at h1 ⊢
      simp only [Option.getD_some] at h1
      rw [h1]
      simp [List.getElem?_map, List.getElem?_range hj]
    · rw [List.getElem?_eq_none (by rw [hlen]; omega), List.getElem?_eq_none (by simp; omega)]
  rw [hs, List.range_eq_range', List.range'_succ]
  simp only [cumsum, List.map_cons, cumsumFrom, Nat.zero_add]
  have := cumsumFrom_range' (fun j => match j with | 0 => 0 | j' + 1 => rowSize qs j') (fun r => ((List.range r).map (rowSize qs)).sum)
    (fun j => by simp only; rw [sum_range_succ]) n 0
  simp only [List.range_zero, List.map_nil, List.sum_nil, Nat.zero_add] at this
  rw [this]
  simp

theorem mask_eq (n : Nat) (rows : List Nat) (hr : ∀ r ∈ rows, r < n) :
    (scatterFalse n rows).map (fun b => !b) = (List.range n).map (fun r => decide (r ∈ rows)) := by
  have key : ∀ (rows : List Nat) (acc : List Bool), (∀ r ∈ rows, r < acc.length) → ∀ j,
      (rows.foldl (fun a r => a.set r false) acc)[j]? = (if j ∈ rows then (if j < acc.length then some false else none) else acc[j]?) := by
    intro rows
    induction rows with
    | nil => intro acc _ j; simp
    | cons r rows ih =>
      intro acc hr j
      simp only [List.foldl_cons]
      rw [ih (acc.set r false) (by intro r' hr'; rw [List.length_set]; exact hr r' (by simp [hr'])) j]
      by_cases hj : j ∈ rows
      · simp [hj, List.length_set]
      · by_cases hjr : j = r
        · subst hjr
          have : j < acc.length := hr j (by simp)
          simp [hj, List.getElem?_set, this]
        · have : ¬ (r = j) := fun h => hjr h.symm
          simp [hj, hjr, List.getElem?_set, this]
  apply List.ext_getElem?
  intro j
  unfold scatterFalse
  rw [List.getElem?_map, key rows (List.replicate n true) (by simpa using hr) j]
  by_cases hj : j < n
  · by_cases hm : j ∈ rows
    · simp [hm, hj, List.getElem?_range hj]
    · simp [hm, hj, List.getElem?_range hj, List.getElem?_replicate]
  · have hm : j ∉ rows := fun h => hj (hr j h)
    simp [hm, hj, List.getElem?_replicate]

/-- **C17:** the translated `_expand_and_align_list_array` is the model's `expandAlign` on the (row, list) pairs whose list is not
    null — for distinct rows below the table length and one list per row (the function's own assertions) -/
theorem expandAlignT_eq {α} (n : Nat) (rows : List Nat) (lists : List (Option (List α)))
    (hl : rows.length = lists.length) (hnd : rows.Nodup) (hr : ∀ r ∈ rows, r < n) :
    expandAlignT n rows lists = expandAlign n (dropNulls (rows.zip lists)) := by
  have hA : (if !(npAll (isValid lists)) then (indexMask rows (isValid lists), dropNull lists) else (rows, dropNull lists))
      = ((dropNulls (rows.zip lists)).map (·.1), (dropNulls (rows.zip lists)).map (·.2)) := by
    rw [← indexMask_valid rows lists hl, ← dropNull_zip rows lists hl]
    by_cases h : npAll (isValid lists) = true
    · simp [h, indexMask_all rows (isValid lists) (by simp [isValid, hl]) h]
    · simp [h]
  have hsub : ((dropNulls (rows.zip lists)).map (·.1)).Sublist rows := by
    have := dropNulls_keys_sublist (rows.zip lists)
    have hz : (rows.zip lists).map (·.1) = rows := by
      rw [List.map_fst_zip]; omega
    rwa [hz] at this
  have hnd' : ((dropNulls (rows.zip lists)).map (·.1)).Nodup := hnd.sublist hsub
  have hr' : ∀ r ∈ (dropNulls (rows.zip lists)).map (·.1), r < n := fun r h => hr r (hsub.subset h)
  have hB := sorted_or_sort (dropNulls (rows.zip lists)) hnd'
  have hq_nd : ((sortPairs (dropNulls (rows.zip lists))).map (·.1)).Nodup :=
    ((sortPairs_perm _).map _).nodup_iff.mpr hnd'
  have hq_r : ∀ r ∈ (sortPairs (dropNulls (rows.zip lists))).map (·.1), r < n := by
    intro r h
    exact hr' r (((sortPairs_perm _).map _).mem_iff.mp h)
  unfold expandAlignT expandAlign
  simp only [hA, hB]
  simp only [fromArrays, offsets_eq n _ hq_nd hq_r, mask_eq n _ hq_r]

/-! ### scalar attributes: `add_scalar_attribute`'s value placement -/

theorem scatterTrue_eq (n : Nat) (rows : List Nat) (hr : ∀ r ∈ rows, r < n) :
    scatterTrue n rows = (List.range n).map (fun r => decide (r ∈ rows)) := by
  have key : ∀ (rows : List Nat) (acc : List Bool), (∀ r ∈ rows, r < acc.length) → ∀ j,
      (rows.foldl (fun a r => a.set r true) acc)[j]? = (if j ∈ rows then (if j < acc.length then some true else none) else acc[j]?) := by
    intro rows
    induction rows with
    | nil => intro acc _ j; simp
    | cons r rows ih =>
      intro acc hr j
      simp only [List.foldl_cons]
      rw [ih (acc.set r true) (by intro r' hr'; rw [List.length_set]; exact hr r' (by simp [hr'])) j]
      by_cases hj : j ∈ rows
      · simp [hj, List.length_set]
      · by_cases hjr : j = r
        · subst hjr
          have : j < acc.length := hr j (by simp)
          simp [hj, List.getElem?_set, this]
        · have : ¬ (r = j) := fun h => hjr h.symm
          simp [hj, hjr, List.getElem?_set, this]
  apply List.ext_getElem?
  intro j
  unfold scatterTrue
  rw [key rows (List.replicate n false) (by simpa using hr) j]
  by_cases hj : j < n
  · by_cases hm : j ∈ rows
    · simp [hm, hj, List.getElem?_range hj]
    · simp [hm, hj, List.getElem?_range hj, List.getElem?_replicate]
  · have hm : j ∉ rows := fun h => hj (hr j h)
    simp [hm, hj, List.getElem?_replicate]

/-- **C17 (scalar layout):** the translated placement is the model's repaired `addScalar` — values sorted into table order, the mask filled
    at their rows — so `scalar_readback` applies: every row reads back exactly the value supplied for it -/
theorem scalarPlaceT_eq {α} (n : Nat) (nums : List Nat) (vals : List α) (hl : nums.length = vals.length) (hr : ∀ r ∈ nums, r < n) :
    LK.Gen.ArrowScalarC17.scalarPlaceT n nums vals = addScalar .repaired n (nums.zip vals) := by
  have hz : (nums.zip vals).map (·.1) = nums := by rw [List.map_fst_zip]; omega
  have hmem : ∀ r, r ∈ (sortPairs (nums.zip vals)).map (·.1) ↔ r ∈ nums := by
    intro r
    rw [((sortPairs_perm (nums.zip vals)).map (·.1)).mem_iff, hz]
  unfold LK.Gen.ArrowScalarC17.scalarPlaceT addScalar takeSortedByRows
  simp only
  rw [scatterTrue_eq n nums hr]
  congr 1
  simp only [maskFrom, List.range_eq_range']
  apply List.map_congr_left
  intro r _
  simp [hmem r]

/-- hence every table row reads back exactly the list that was supplied for it (and null where none, or a null, was supplied) -/
theorem expandAlignT_readback {α} (n : Nat) (rows : List Nat) (lists : List (Option (List α)))
    (hl : rows.length = lists.length) (hnd : rows.Nodup) (hr : ∀ r ∈ rows, r < n) (r : Nat) (hrn : r < n) :
    (expandAlignT n rows lists).get r = supplied (dropNulls (rows.zip lists)) r := by
  rw [expandAlignT_eq n rows lists hl hnd hr]
  apply list_readback n _ _ r hrn
  have hz : (rows.zip lists).map (·.1) = rows := by rw [List.map_fst_zip]; omega
  have := dropNulls_keys_sublist (rows.zip lists)
  rw [hz] at this
  exact hnd.sublist this

end LK.ArrowOps
