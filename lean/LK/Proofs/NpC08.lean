import LK.Generated.NpC08
import LK.Model.NpOps
/-!
# C08 — `BiasModel.learn`, as translated from the source, is the accumulation model
-/
namespace LK.NpOps
open LK.Bias LK.Gen.NpC08

theorem npAddAt_length (arr : List Q) (idx : List Nat) (vals : List Q) : (npAddAt arr idx vals).length = arr.length := by
  unfold npAddAt
  generalize List.zip idx vals = ivs
  induction ivs generalizing arr with
  | nil => rfl
  | cons iv ivs ih => simp only [List.foldl_cons]; rw [ih]; simp

theorem addAt_eq (n : Nat) (init : Q) (idx : List Nat) (vals : List Q) : addAt n init idx vals = npAddAt (npFull n init) idx vals := rfl

theorem npDivideWhere_zeros (a b : List Q) (n : Nat) (ha : a.length = n) (hb : b.length = n) :
    npDivideWhere a b (npZeros n) = List.zipWith safeDiv a b := by
  induction n generalizing a b with
  | zero =>
    cases a with
    | nil => rfl
    | cons _ _ => simp at ha
  | succ n ih =>
    cases a with
    | nil => simp at ha
    | cons x a =>
      cases b with
      | nil => simp at hb
      | cons y b =>
        simp only [List.length_cons, Nat.add_right_cancel_iff] at ha hb
        have := ih a b ha hb
        simp only [npDivideWhere, npZeros, List.replicate_succ, List.zip_cons_cons, List.zipWith_cons_cons, safeDiv] at this ⊢
        rw [this]

/-- **C08:** the translated `BiasModel.learn` computes the global mean and the item and user offsets of the accumulation model — hence
    (by `itemBiases_eq_def` / `userBiases_eq_def`) the documented damped means, item offsets first, user offsets on the item-centred rest -/
theorem biasLearn_eq_model (nU nI : Nat) (dU dI : Q) (rs : List Rating) :
    biasLearn nU nI dU dI (rs.map (·.u)) (rs.map (·.i)) (rs.map (·.r))
      = (globalMean rs, itemBiasesImpl nI dI rs,
         userBiasesImpl nU dU (fun i => (itemBiasesImpl nI dI rs).getD i 0) rs) := by
  have hg : npMean (rs.map (·.r)) = globalMean rs := by simp [npMean, globalMean]
  have hc : npSubScalar (rs.map (·.r)) (globalMean rs) = rs.map (fun x => x.r - globalMean rs) := by
    simp [npSubScalar, List.map_map, Function.comp_def]
  have hone : npAddAtScalar (npFull nI dI) (rs.map (·.i)) 1 = addAt nI dI (rs.map (·.i)) (rs.map (fun _ => (1 : Q))) := by
    simp [npAddAtScalar, addAt_eq, List.map_map, Function.comp_def]
  have honeU : npAddAtScalar (npFull nU dU) (rs.map (·.u)) 1 = addAt nU dU (rs.map (·.u)) (rs.map (fun _ => (1 : Q))) := by
    simp [npAddAtScalar, addAt_eq, List.map_map, Function.comp_def]
  have hz : ∀ n, npZeros n = npFull n 0 := fun _ => rfl
  have hib : npDivideWhere (npAddAt (npZeros nI) (rs.map (·.i)) (rs.map (fun x => x.r - globalMean rs)))
      (addAt nI dI (rs.map (·.i)) (rs.map (fun _ => (1 : Q)))) (npZeros nI) = itemBiasesImpl nI dI rs := by
    rw [npDivideWhere_zeros _ _ nI (by rw [npAddAt_length]; simp [npZeros]) (by rw [addAt_eq, npAddAt_length]; simp [npFull])]
    simp [itemBiasesImpl, addAt_eq, hz]
  have hsub : npSub (rs.map (fun x => x.r - globalMean rs)) (npGather (itemBiasesImpl nI dI rs) (rs.map (·.i)))
      = rs.map (fun x => x.r - globalMean rs - (itemBiasesImpl nI dI rs).getD x.i 0) := by
    simp only [npSub, npGather, List.map_map]
    induction rs with
    | nil => rfl
    | cons x xs _ => simp [List.zipWith_map_left, List.zipWith_map_right, List.zipWith_self]
  unfold biasLearn
  simp only [hg, hc, hone, honeU, hib, hsub]
  congr 1; congr 1
  rw [npDivideWhere_zeros _ _ nU (by rw [npAddAt_length]; simp [npZeros]) (by rw [addAt_eq, npAddAt_length]; simp [npFull])]
  simp [userBiasesImpl, addAt_eq, hz]

end LK.NpOps
