import LK.Generated.NpC08
import LK.Model.NpOps
/-!
# C08 — `BiasModel.learn`, as translated from the source, is the accumulation model
-/
namespace LK.NpOps
open LK.Bias LK.Gen.NpC08

theorem npAddAt_length (arr : List Q) (idx : List Nat) (vals : List Q) : (npAddAt arr idx vals).length = arr.length := by
  unfold npAddAt
  generalize List.zip idx vals = ivs
  induction ivs generalizing arr with
  | nil => rfl
  | cons iv ivs ih => simp only [List.foldl_cons]; rw [ih]; simp

theorem addAt_eq (n : Nat) (init : Q) (idx : List Nat) (vals : List Q) : addAt n init idx vals = npAddAt (npFull n init) idx vals := rfl

theorem npDivideWhere_zeros (a b : List Q) (n : Nat) (ha : a.length = n) (hb : b.length = n) :
    npDivideWhere a b (npZeros n) = List.zipWith safeDiv a b := by
  induction n generalizing a b with
  | zero =>
    cases a with
    | nil => rfl
    | cons _ _ => simp at ha
  | succ n ih =>
    cases a with
    | nil => simp at ha
    | cons x a =>
      cases b with
      | nil => simp at hb
      | cons y b =>
        simp only [List.length_cons, Nat.add_right_cancel_iff] at ha hb
        have := ih a b ha hb
        simp only [npDivideWhere, npZeros, List.replicate_succ, List.zip_cons_cons, List.zipWith_cons_cons, safeDiv] at this ⊢
        rw [this]

/-- counting with `np.bincount` and adding is the same as the unbuffered `np.add.at(…, 1)` -/
theorem addAt_ones_getElem? (idx : List Nat) (acc : List Q) (h : ∀ i ∈ idx, i < acc.length) (j : Nat) :
    (npAddAt acc idx (idx.map (fun _ => (1 : Q))))[j]? = (acc[j]?).map (fun a => a + ((idx.filter (fun i => i == j)).length : Q)) := by
  unfold npAddAt
  induction idx generalizing acc with
  | nil =>
    simp only [List.map_nil, List.zip_nil_right, List.foldl_nil, List.filter_nil, List.length_nil]
    cases h' : acc[j]? <;> simp [Rat.add_zero]
  | cons i idx ih =>
    have hi : i < acc.length := h i (by simp)
    simp only [List.map_cons, List.zip_cons_cons, List.foldl_cons]
    rw [ih (acc.set i (acc.getD i 0 + 1)) (by intro k hk; rw [List.length_set]; exact h k (by simp [hk]))]
    by_cases hij : i = j
    · subst hij
      simp only [List.getElem?_set, hi, if_true, List.filter_cons, beq_self_eq_true, List.length_cons, List.getD_eq_getElem?_getD,
        List.getElem?_eq_getElem hi, Option.getD_some, Option.map_some]
      congr 1
      push_cast
      rw [Rat.add_assoc, Rat.add_comm 1]
    · have hne : (i == j) = false := by simpa using hij
      simp [List.getElem?_set, hij, List.filter_cons, hne]

theorem bincount_add (n : Nat) (d : Q) (idx : List Nat) (h : ∀ i ∈ idx, i < n) :
    npAdd (npFull n d) (npBincount idx n) = npAddAtScalar (npFull n d) idx 1 := by
  apply List.ext_getElem?
  intro j
  unfold npAddAtScalar
  rw [addAt_ones_getElem? idx (npFull n d) (by simpa [npFull] using h) j]
  by_cases hj : j < n
  · simp [npAdd, npFull, npBincount, List.getElem?_zipWith, List.getElem?_replicate, hj, List.getElem?_range hj]
  · simp [npAdd, npFull, npBincount, List.getElem?_zipWith, List.getElem?_replicate, hj]

/-- **C08:** the translated `BiasModel.learn` computes the global mean and the item and user offsets of the accumulation model — hence
    (by `itemBiases_eq_def` / `userBiases_eq_def`) the documented damped means, item offsets first, user offsets on the item-centred rest -/
theorem biasLearn_eq_model (nU nI : Nat) (dU dI : Q) (rs : List Rating) (hi : ∀ x ∈ rs, x.i < nI) (hu : ∀ x ∈ rs, x.u < nU) :
    biasLearn nU nI dU dI (rs.map (·.u)) (rs.map (·.i)) (rs.map (·.r))
      = (globalMean rs, itemBiasesImpl nI dI rs,
         userBiasesImpl nU dU (fun i => (itemBiasesImpl nI dI rs).getD i 0) rs) := by
  have hg : npMean (rs.map (·.r)) = globalMean rs := by simp [npMean, globalMean]
  have hc : npSubScalar (rs.map (·.r)) (globalMean rs) = rs.map (fun x => x.r - globalMean rs) := by
    simp [npSubScalar, List.map_map, Function.comp_def]
  have hone : npAddAtScalar (npFull nI dI) (rs.map (·.i)) 1 = addAt nI dI (rs.map (·.i)) (rs.map (fun _ => (1 : Q))) := by
    simp [npAddAtScalar, addAt_eq, List.map_map, Function.comp_def]
  have honeU : npAddAtScalar (npFull nU dU) (rs.map (·.u)) 1 = addAt nU dU (rs.map (·.u)) (rs.map (fun _ => (1 : Q))) := by
    simp [npAddAtScalar, addAt_eq, List.map_map, Function.comp_def]
  have hbinI : npAdd (npFull nI dI) (npBincount (rs.map (·.i)) nI) = addAt nI dI (rs.map (·.i)) (rs.map (fun _ => (1 : Q))) := by
    rw [bincount_add nI dI _ (by intro k hk; obtain ⟨x, hx, rfl⟩ := List.mem_map.mp hk; exact hi x hx), hone]
  have hbinU : npAdd (npFull nU dU) (npBincount (rs.map (·.u)) nU) = addAt nU dU (rs.map (·.u)) (rs.map (fun _ => (1 : Q))) := by
    rw [bincount_add nU dU _ (by intro k hk; obtain ⟨x, hx, rfl⟩ := List.mem_map.mp hk; exact hu x hx), honeU]
  have hz : ∀ n, npZeros n = npFull n 0 := fun _ => rfl
  have hib : npDivideWhere (npAddAt (npZeros nI) (rs.map (·.i)) (rs.map (fun x => x.r - globalMean rs)))
      (addAt nI dI (rs.map (·.i)) (rs.map (fun _ => (1 : Q)))) (npZeros nI) = itemBiasesImpl nI dI rs := by
    rw [npDivideWhere_zeros _ _ nI (by rw [npAddAt_length]; simp [npZeros]) (by rw [addAt_eq, npAddAt_length]; simp [npFull])]
    simp [itemBiasesImpl, addAt_eq, hz]
  have hsub : npSub (rs.map (fun x => x.r - globalMean rs)) (npGather (itemBiasesImpl nI dI rs) (rs.map (·.i)))
      = rs.map (fun x => x.r - globalMean rs - (itemBiasesImpl nI dI rs).getD x.i 0) := by
    simp only [npSub, npGather, List.map_map]
    induction rs with
    | nil => rfl
    | cons x xs _ => simp [List.zipWith_map_left, List.zipWith_map_right, List.zipWith_self]
  unfold biasLearn
  simp only [hg, hc, hone, honeU, hbinI, hbinU, hib, hsub]
  congr 1; congr 1
  rw [npDivideWhere_zeros _ _ nU (by rw [npAddAt_length]; simp [npZeros]) (by rw [addAt_eq, npAddAt_length]; simp [npFull])]
  simp [userBiasesImpl, addAt_eq, hz]

end LK.NpOps
