import LK.Model.Split
/-! Lemmas for C05: `array_split` is a partition; mask selection partitions the records. -/
namespace LK.Split

theorem splitBy_flatten {α} (ss : List Nat) (xs : List α) (h : ss.sum = xs.length) :
    (splitBy ss xs).flatten = xs := by
  induction ss generalizing xs with
  | nil =>
    simp only [List.sum_nil] at h
    have : xs = [] := List.eq_nil_of_length_eq_zero h.symm
    simp [splitBy, this]
  | cons s ss ih =>
    simp only [splitBy, List.flatten_cons]
    rw [ih (xs.drop s) (by simp only [List.sum_cons] at h; simp [List.length_drop]; omega)]
    exact List.take_append_drop s xs

theorem splitBy_length {α} (ss : List Nat) (xs : List α) : (splitBy ss xs).length = ss.length := by
  induction ss generalizing xs with
  | nil => rfl
  | cons s ss ih => simp [splitBy, ih]

theorem sum_map_ite_lt (k r : Nat) (hr : r ≤ k) :
    ((List.range k).map (fun i => if i < r then 1 else 0)).sum = r := by
  induction k with
  | zero => simp at hr; simp [hr]
  | succ k ih =>
    rw [List.range_succ, List.map_append, List.sum_append]
    by_cases h : r ≤ k
    · rw [ih h]
      have : ¬ k < r := by omega
      simp [this]
    · have hrk : r = k + 1 := by omega
      subst hrk
      have : ((List.range k).map (fun i => if i < k + 1 then 1 else 0)).sum = k := by
        have e : (List.range k).map (fun i => if i < k + 1 then 1 else 0) = (List.range k).map (fun _ => 1) := by
          apply List.map_congr_left
          intro i hi; have := List.mem_range.mp hi
          have : i < k + 1 := by omega
          simp [this]
        rw [e, List.map_const', List.length_range, List.sum_replicate_nat, Nat.mul_one]
      rw [this]
      have : k < k + 1 := Nat.lt_succ_self k
      simp [this]

theorem splitSizes_sum (n k : Nat) (hk : 0 < k) : (splitSizes n k).sum = n := by
  unfold splitSizes
  have hsum : ∀ (f g : Nat → Nat) (l : List Nat), (l.map (fun i => f i + g i)).sum = (l.map f).sum + (l.map g).sum := by
    intro f g l; induction l with
    | nil => simp
    | cons a l ih => simp [ih]; omega
  rw [hsum (fun _ => n / k) (fun i => if i < n % k then 1 else 0)]
  rw [sum_map_ite_lt k (n % k) (Nat.le_of_lt (Nat.mod_lt n hk))]
  have hc : ((List.range k).map (fun _ => n / k)).sum = k * (n / k) := by
    rw [List.map_const', List.length_range, List.sum_replicate_nat]
  rw [hc]
  exact Nat.div_add_mod n k

/-- `np.array_split` loses and duplicates nothing, for any `k ≥ 1` -/
theorem arraySplit_flatten {α} (xs : List α) (k : Nat) (hk : 0 < k) : (arraySplit xs k).flatten = xs :=
  splitBy_flatten _ _ (splitSizes_sum _ _ hk)

theorem arraySplit_length {α} (xs : List α) (k : Nat) : (arraySplit xs k).length = k := by
  simp [arraySplit, splitBy_length, splitSizes]

/-- mask selection and its complement partition the list (as multisets) -/
theorem selectMask_perm {α} (xs : List α) (m : List Bool) (h : m.length = xs.length) :
    (selectMask xs m ++ selectMask xs (m.map not)).Perm xs := by
  induction xs generalizing m with
  | nil => cases m <;> simp [selectMask]
  | cons x xs ih =>
    cases m with
    | nil => simp at h
    | cons b m =>
      have hm : m.length = xs.length := by simpa using h
      cases b with
      | true =>
        simp only [selectMask, List.map_cons, Bool.not_true, List.cons_append]
        exact (ih m hm).cons x
      | false =>
        simp only [selectMask, List.map_cons, Bool.not_false]
        exact (List.perm_middle).trans ((ih m hm).cons x)

/-- `_make_pair` is an exact partition of the records -/
theorem makePair_partition {α} (recs : List α) (testIdx : List Nat) :
    ((makePair recs testIdx false).test ++ (makePair recs testIdx false).train).Perm recs := by
  simp only [makePair]
  exact selectMask_perm recs _ (by simp [maskOf])

theorem makePair_testOnly {α} (recs : List α) (testIdx : List Nat) : (makePair recs testIdx true).train = [] := rfl

/-- membership in the masked selection: exactly the positions in the index set -/
theorem mem_selectMask_range (n : Nat) (idx : List Nat) (start : Nat) :
    selectMask (List.range' start n) ((List.range' start n).map (fun i => decide (i ∈ idx)))
      = (List.range' start n).filter (fun i => decide (i ∈ idx)) := by
  induction n generalizing start with
  | zero => simp [selectMask]
  | succ n ih =>
    simp only [List.range'_succ, List.map_cons, List.filter_cons]
    by_cases h : start ∈ idx
    · simp only [h, decide_true, selectMask, if_true]
      rw [ih]
    · simp only [h, decide_false, selectMask]
      rw [ih]; simp

/-- every index of a permutation of `range n` lands in exactly one part of `array_split` -/
theorem arraySplit_each_once (perm : List Nat) (n k : Nat) (hk : 0 < k)
    (hp : perm.Perm (List.range n)) (i : Nat) (hi : i < n) :
    ∃ f, f < k ∧ (∃ part, (arraySplit perm k)[f]? = some part ∧ i ∈ part) ∧
      ∀ g part', (arraySplit perm k)[g]? = some part' → i ∈ part' → g = f := by
  have hflat := arraySplit_flatten perm k hk
  have hnd : (arraySplit perm k).flatten.Nodup := by
    rw [hflat]; exact (hp.nodup_iff).mpr List.nodup_range
  have himem : i ∈ (arraySplit perm k).flatten := by
    rw [hflat]; exact (hp.mem_iff).mpr (List.mem_range.mpr hi)
  obtain ⟨part, hpart, hip⟩ := List.mem_flatten.mp himem
  obtain ⟨f, hf, hfe⟩ := List.getElem_of_mem hpart
  refine ⟨f, by rw [arraySplit_length] at hf; exact hf, ⟨part, by simp [hf, hfe], hip⟩, ?_⟩
  intro g part' hg hip'
  have hgl : g < (arraySplit perm k).length := by
    rcases List.getElem?_eq_some_iff.mp hg with ⟨h, _⟩; exact h
  have hge : (arraySplit perm k)[g] = part' := by
    rcases List.getElem?_eq_some_iff.mp hg with ⟨_, h⟩; exact h
  have hpw := (List.pairwise_flatten.mp hnd).2
  have hdis : ∀ a b (ha : a < (arraySplit perm k).length) (hb : b < (arraySplit perm k).length), a < b →
      ∀ x, x ∈ (arraySplit perm k)[a] → x ∉ (arraySplit perm k)[b] := by
    intro a b ha hb hab x hxa hxb
    have := List.pairwise_iff_getElem.mp hpw a b ha hb hab
    exact this x hxa x hxb rfl
  rcases Nat.lt_trichotomy g f with hlt | heq | hgt
  · exact absurd (hfe ▸ hip) (hdis g f hgl hf hlt i (hge ▸ hip'))
  · exact heq
  · exact absurd (hge ▸ hip') (hdis f g hf hgl hgt i (hfe ▸ hip))

#print axioms arraySplit_each_once
#print axioms arraySplit_flatten
#print axioms makePair_partition
end LK.Split

namespace LK.Split
/-- the defect as a model-level witness: a zero-sized holdout takes every row -/
example : lastN .asIs [5, 3, 9] 0 = [1, 0, 2] := by decide
example : lastN .repaired [5, 3, 9] 0 = [] := by decide
example : lastN .repaired [5, 3, 9] 2 = [0, 2] := by decide

theorem lastTake_length {α} (xs : List α) (n : Nat) : (lastTake xs n).length = min n xs.length := by
  simp [lastTake, List.length_drop]; omega
end LK.Split

namespace LK.Split

/-- **C05 (temporal):** strictly-before-the-cut goes to training, everything from the cut on to test — an exact partition -/
theorem temporal_partition {β} (recs : List (IRec β)) (cut : Int) :
    ((temporalSplit recs cut none).1 ++ (temporalSplit recs cut none).2).Perm recs := by
  simp only [temporalSplit, Bool.and_true]
  have : (fun r : IRec β => decide (cut ≤ r.t)) = (fun r => !(decide (r.t < cut))) := by
    funext r; by_cases h : r.t < cut
    · have : ¬ cut ≤ r.t := by omega
      simp [h, this]
    · have : cut ≤ r.t := by omega
      simp [h, this]
  rw [this]
  exact List.filter_append_perm _ recs

theorem temporal_train_before {β} (recs : List (IRec β)) (cut : Int) (next : Option Int) :
    ∀ r ∈ (temporalSplit recs cut next).1, r.t < cut := by
  intro r hr; simpa using (List.mem_filter.mp hr).2

theorem temporal_test_window {β} (recs : List (IRec β)) (cut e : Int) :
    ∀ r ∈ (temporalSplit recs cut (some e)).2, cut ≤ r.t ∧ r.t < e := by
  intro r hr; simpa using (List.mem_filter.mp hr).2

/-- the zone offset leaks into the cut exactly in one configuration: UNIX-second cut-offs against a
    datetime-typed column (as it stands); everywhere else the split does not depend on the zone -/
theorem conformCut_tz_independent (off : Int) (sd gu : Bool) (x : Int) (h : ¬ (sd = true ∧ gu = true)) :
    conformCut off sd gu x = conformCut 0 sd gu x := by
  unfold conformCut
  cases sd <;> cases gu <;> simp at h ⊢
example : conformCut (-21600) true true 100 ≠ conformCut 0 true true 100 := by decide

/-- **C05 (user-based):** rows of users outside the test set stay in training untouched -/
theorem userSplit_other_users {β} (recs : List (IRec β)) (testUsers : List Nat)
    (pick : Nat → List (IRec β) → List (IRec β)) (hsub : ∀ u row, ∀ r ∈ pick u row, r ∈ row)
    (u : Nat) (hu : u ∉ testUsers) :
    rowOf (userSplit recs testUsers pick).2 u = rowOf recs u := by
  simp only [userSplit, rowOf, List.filter_filter]
  apply List.filter_congr
  intro r _
  by_cases hru : r.u = u
  · subst hru
    have : ¬ ((testUsers.map (fun u => (u, pick u (rowOf recs u)))).flatMap
        (fun ut => ut.2.map (fun r => (r.u, r.i)))).contains (r.u, r.i) = true := by
      intro hc
      simp only [List.contains_iff_mem, List.mem_flatMap, List.mem_map] at hc
      obtain ⟨ut, ⟨u', hu', rfl⟩, r', hr', hp⟩ := hc
      have hmem := hsub u' _ r' hr'
      have hr'u : r'.u = u' := by simpa [rowOf] using (List.mem_filter.mp hmem).2
      simp only [Prod.mk.injEq] at hp
      rw [← hp.1, hr'u] at hu
      exact hu hu'
    have hF : ((testUsers.map (fun u => (u, pick u (rowOf recs u)))).flatMap
        (fun ut => ut.2.map (fun r => (r.u, r.i)))).contains (r.u, r.i) = false := by simpa using this
    simp only [rowOf] at hF
    rw [hF]; simp
  · have : (r.u == u) = false := by simpa using hru
    simp [this]

/-- the held-out rows of a test user are exactly what the holdout rule picked from that user's row -/
theorem userSplit_test {β} (recs : List (IRec β)) (testUsers : List Nat)
    (pick : Nat → List (IRec β) → List (IRec β)) (u : Nat) (hu : u ∈ testUsers) :
    (u, pick u (rowOf recs u)) ∈ (userSplit recs testUsers pick).1 := by
  simp only [userSplit]
  exact List.mem_map.mpr ⟨u, hu, rfl⟩

/-- no leak: a held-out (user, item) pair never remains in training -/
theorem userSplit_no_leak {β} (recs : List (IRec β)) (testUsers : List Nat)
    (pick : Nat → List (IRec β) → List (IRec β)) (ut : Nat × List (IRec β)) (hut : ut ∈ (userSplit recs testUsers pick).1)
    (r : IRec β) (hr : r ∈ ut.2) : ∀ r' ∈ (userSplit recs testUsers pick).2, ¬ (r'.u = r.u ∧ r'.i = r.i) := by
  intro r' hr' hp
  simp only [userSplit] at hut hr'
  have hnc := (List.mem_filter.mp hr').2
  have hin : ((testUsers.map (fun u => (u, pick u (rowOf recs u)))).flatMap
      (fun ut => ut.2.map (fun r => (r.u, r.i)))).contains (r'.u, r'.i) = true := by
    rw [List.contains_iff_mem]
    exact List.mem_flatMap.mpr ⟨ut, hut, List.mem_map.mpr ⟨r, hr, by rw [hp.1, hp.2]⟩⟩
  rw [hin] at hnc
  simp at hnc

#print axioms userSplit_other_users
#print axioms temporal_partition
end LK.Split
