import LK.Model.Train
namespace LK.Train

/-- **C18:** training with retraining disabled on a trained model leaves it untouched -/
theorem skip_is_identity {δ σ} (learn : δ → σ) (c : Comp σ) (d : δ) (h : c.learned.isSome) :
    train learn c d false = c := by simp [train, h]

/-- **C18:** retraining yields exactly what a fresh component learns from the new data alone -/
theorem retrain_eq_fresh {δ σ} (learn : δ → σ) (c : Comp σ) (d : δ) :
    train learn c d true = train learn { learned := none } d true := by simp [train]

/-- …for every longer history: only the last retraining dataset matters -/
theorem history_eq_last {δ σ} (learn : δ → σ) (c : Comp σ) (ds : List δ) (d : δ) :
    train learn (ds.foldl (fun c d' => train learn c d' true) c) d true = { learned := some (learn d) } := by
  simp [train]

/-- each trainable component is trained exactly once, in node order -/
theorem trained_once (nodes : List (Nat × Bool)) (seed : Option SeedSeq) :
    (trainAll nodes seed).map (·.1) = (nodes.filter (·.2)).map (·.1) := by
  induction nodes generalizing seed with
  | nil => rfl
  | cons nt rest ih =>
    obtain ⟨n, t⟩ := nt
    cases t with
    | false => simp [trainAll, ih]
    | true =>
      cases seed with
      | none => simp [trainAll, ih]
      | some s => simp [trainAll, spawn, ih]

/-- the spawn keys handed out are `key ++ [spawned], key ++ [spawned+1], …` -/
theorem seeds_are_successive (nodes : List (Nat × Bool)) (s : SeedSeq) :
    (trainAll nodes (some s)).map (·.2) =
      (List.range (nodes.filter (·.2)).length).map (fun i =>
        some { entropy := s.entropy, key := s.key ++ [s.spawned + i], spawned := 0 }) := by
  induction nodes generalizing s with
  | nil => rfl
  | cons nt rest ih =>
    obtain ⟨n, t⟩ := nt
    cases t with
    | false => simp [trainAll, ih]
    | true =>
      simp only [trainAll, spawn, List.map_cons, List.filter_cons, List.length_cons, if_true]
      rw [ih]
      rw [List.range_succ_eq_map]
      simp only [List.map_cons, List.map_map, Nat.add_zero]
      congr 1
      apply List.map_congr_left
      intro i _
      simp only [Function.comp]
      congr 4
      omega

/-- hence the seeds of distinct components are distinct -/
theorem seeds_distinct (nodes : List (Nat × Bool)) (s : SeedSeq) : ((trainAll nodes (some s)).map (·.2)).Nodup := by
  rw [seeds_are_successive]
  rw [List.Nodup, List.pairwise_map]
  apply List.Pairwise.imp _ List.nodup_range
  intro i j hij h
  simp only [Option.some.injEq, SeedSeq.mk.injEq, true_and, and_true] at h
  have := List.append_cancel_left h
  simp at this
  exact hij (by omega)

#print axioms seeds_distinct
/-- **C18 (pipeline level):** training a pipeline whose trainable components are all trained, with retraining disabled, changes nothing —
    whatever seed is supplied -/
theorem pipe_skip_is_identity {δ σ} (learn : Option SeedSeq → δ → σ) (comps : List (Comp σ × Bool)) (d : δ) (seed : Option SeedSeq)
    (h : ∀ p ∈ comps, p.2 = true → p.1.learned.isSome) : pipeTrain learn comps d false seed = comps := by
  induction comps generalizing seed with
  | nil => rfl
  | cons p rest ih =>
    obtain ⟨c, t⟩ := p
    have hr : ∀ p ∈ rest, p.2 = true → p.1.learned.isSome := fun p hp => h p (List.mem_cons_of_mem _ hp)
    cases t with
    | false => simp [pipeTrain, ih _ hr]
    | true =>
      have hc : c.learned.isSome := h (c, true) (List.mem_cons_self) rfl
      cases seed with
      | none => simp [pipeTrain, ih _ hr, skip_is_identity _ c d hc]
      | some s => simp [pipeTrain, ih _ hr, skip_is_identity _ c d hc]

/-- **C18 (pipeline level):** retraining a pipeline equals training the same pipeline with fresh trainable components -/
theorem pipe_retrain_eq_fresh {δ σ} (learn : Option SeedSeq → δ → σ) (comps : List (Comp σ × Bool)) (d : δ) (seed : Option SeedSeq) :
    pipeTrain learn comps d true seed
      = pipeTrain learn (comps.map (fun p => (if p.2 then { learned := none } else p.1, p.2))) d true seed := by
  induction comps generalizing seed with
  | nil => rfl
  | cons p rest ih =>
    obtain ⟨c, t⟩ := p
    cases t with
    | false => simp [pipeTrain, ih]
    | true =>
      cases seed with
      | none => simp [pipeTrain, ← ih, train]
      | some s => simp [pipeTrain, ← ih, train]

/-- the components a pipeline training passes over keep their state, and the shape of the pipeline is unchanged -/
theorem pipe_shape {δ σ} (learn : Option SeedSeq → δ → σ) (comps : List (Comp σ × Bool)) (d : δ) (r : Bool) (seed : Option SeedSeq) :
    (pipeTrain learn comps d r seed).map (·.2) = comps.map (·.2)
    ∧ ∀ (i : Nat) (c : Comp σ), comps[i]? = some (c, false) → (pipeTrain learn comps d r seed)[i]? = some (c, false) := by
  induction comps generalizing seed with
  | nil => simp [pipeTrain]
  | cons p rest ih =>
    obtain ⟨c, t⟩ := p
    cases t with
    | false =>
      refine ⟨by simp [pipeTrain, (ih seed).1], ?_⟩
      intro i c' hi
      cases i with
      | zero => simpa [pipeTrain] using hi
      | succ j => simpa [pipeTrain] using (ih seed).2 j c' (by simpa using hi)
    | true =>
      cases seed with
      | none =>
        refine ⟨by simp [pipeTrain, (ih none).1], ?_⟩
        intro i c' hi
        cases i with
        | zero => simp at hi
        | succ j => simpa [pipeTrain] using (ih none).2 j c' (by simpa using hi)
      | some s =>
        refine ⟨by simp [pipeTrain, (ih _).1], ?_⟩
        intro i c' hi
        cases i with
        | zero => simp at hi
        | succ j => simpa [pipeTrain] using (ih _).2 j c' (by simpa using hi)

end LK.Train
