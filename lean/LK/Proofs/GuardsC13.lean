import LK.Generated.GuardsC13
import LK.Model.Config
/-!
# C13 — the collections of the configuration document are written in a canonical order
1 = sorted, 0 = whatever order the container iterates in (insertion order of a dictionary, hash order of a set).  The theorems of
`LK.Cfg` (`aliases_order_indep`, `edges_order_indep`, `toJson_injective`) are about a document whose component inputs, aliases and
input types are sorted; these obligations are the places in the code where that sorting happens.
-/
namespace LK.Gen.GuardsC13

/-- the types of an input are serialised sorted — a set of strings iterates in hash order, which differs between interpreter runs
    (the defect repaired by `4e967ba`) -/
theorem input_types_sorted : inputTypesOrder = 1 := by decide

/-- a component's connections are written sorted by parameter name, whatever order they were declared in (and whether they come from an
    explicit connection or a default) -/
theorem component_inputs_sorted : componentInputsOrder = 1 := by decide

/-- aliases are written sorted by name -/
theorem aliases_sorted : aliasesOrder = 1 := by decide

/-- literal nodes (named by their content) are listed by name, not in the order they were declared (the defect repaired by `8ffb229`) -/
theorem literals_sorted : literalsOrder = 1 := by decide

/-! ### what goes into the document, and when a loaded document is challenged -/
open LK.Cfg

/-- a parameter receives the builder-level default connection exactly when it has no explicit connection and a default exists … -/
theorem defaultConnection_iff (unwired hasDefault : Bool) :
    defaultConnectionBranch unwired hasDefault = 0 ↔ (unwired = true ∧ hasDefault = true) := by
  cases unwired <;> cases hasDefault <;> simp [defaultConnectionBranch]

/-- … which is the test of the model's `resolve` ("explicit connections first, builder-level defaults otherwise") -/
theorem resolve_test (defaults : List (String × String)) (c : BComp) (p : String) :
    ((if (c.edges.map (·.1)).contains p then none else (defaults.find? (·.1 == p)).map (fun d => (p, d.2))).isSome)
      = (defaultConnectionBranch (!(c.edges.map (·.1)).contains p) (defaults.find? (·.1 == p)).isSome == 0) := by
  cases h1 : (c.edges.map (·.1)).contains p <;> cases h2 : defaults.find? (·.1 == p) <;> simp [defaultConnectionBranch]

/-- the hash is written exactly when asked for (`config_hash` asks for a document without it, so the hash never covers itself) -/
theorem hash_written_iff (b : Bool) : includeHashBranch b = 0 ↔ b = true := by cases b <;> simp [includeHashBranch]

/-- a (non-empty) default node name is written -/
theorem default_written (k : Int) (hk : k ≠ 0) : defaultNodeBranch (some k) = 0 ∧ defaultNodeBranch none = 1 := by
  simp [defaultNodeBranch, LK.Py.truthy, hk]

/-- a loaded document is challenged exactly when it records a hash, and the warning is raised exactly when the recomputed one differs -/
theorem challenge_iff (recorded : LK.Py.V) : recordedHashBranch recorded = 0 ↔ recorded.isSome := by
  cases recorded <;> simp [recordedHashBranch]

theorem mismatch_iff (computed r : Int) : hashMismatchBranch computed (some r) = 0 ↔ computed ≠ r := by
  simp [hashMismatchBranch]

/-! ### what a component given to the builder becomes -/

/-- a component *instance* is kept as it is (its settings are its own); a component *class* that takes a configuration becomes a
    constructor node whose configuration has been validated — a missing one is the class's default settings, so the document always
    lists the settings in force; only a bare type that is not a component constructor gets no configuration -/
theorem create_dispatch (isInstance isConstructor isType : Bool) :
    createDispatch isInstance isConstructor isType
      = some (if isInstance then 0 else if isConstructor then 1 else if isType then 2 else 3) := by
  cases isInstance <;> cases isConstructor <;> cases isType <;> rfl

/-- a component class never gets the unvalidated (absent) configuration -/
theorem constructor_config_validated (isType : Bool) : createDispatch false true isType = some 1 := by
  cases isType <;> rfl

end LK.Gen.GuardsC13
