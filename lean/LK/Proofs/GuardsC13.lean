import LK.Generated.GuardsC13
/-!
# C13 — the collections of the configuration document are written in a canonical order
1 = sorted, 0 = whatever order the container iterates in (insertion order of a dictionary, hash order of a set).  The theorems of
`LK.Cfg` (`aliases_order_indep`, `edges_order_indep`, `toJson_injective`) are about a document whose component inputs, aliases and
input types are sorted; these obligations are the places in the code where that sorting happens.
-/
namespace LK.Gen.GuardsC13

/-- the types of an input are serialised sorted — a set of strings iterates in hash order, which differs between interpreter runs
    (the defect repaired by `4e967ba`) -/
theorem input_types_sorted : inputTypesOrder = 1 := by decide

/-- a component's connections are written sorted by parameter name, whatever order they were declared in (and whether they come from an
    explicit connection or a default) -/
theorem component_inputs_sorted : componentInputsOrder = 1 := by decide

/-- aliases are written sorted by name -/
theorem aliases_sorted : aliasesOrder = 1 := by decide

end LK.Gen.GuardsC13
