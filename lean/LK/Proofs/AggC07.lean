import LK.Generated.AggC07
import LK.Proofs.PredictMetrics
import Mathlib.Tactic.Ring
import Mathlib.Tactic.Linarith
import Mathlib.Data.Rat.Cast.Order
/-!
# C07 — the methods of `RMSE` and `MAE`, as translated from the source, are the model's
(`root` is the square root; the model states RMSE through the mean squared error and the caller takes the root)
-/
set_option linter.unusedSimpArgs false
namespace LK.SeriesOps
open LK.Pred LK.Gen.AggC07

theorem sub_pairs (pairs : List Pair) :
    (serSub (pairs.map (·.1)) (pairs.map (·.2))).filterMap id = (both pairs).map (fun pt => pt.1 - pt.2) := by
  induction pairs with
  | nil => rfl
  | cons pt ps ih =>
    obtain ⟨p, t⟩ := pt
    cases p <;> cases t <;> simp_all [serSub, both]

theorem sq_pairs (pairs : List Pair) :
    (serMul (serSub (pairs.map (·.1)) (pairs.map (·.2))) (serSub (pairs.map (·.1)) (pairs.map (·.2)))).filterMap id
      = (both pairs).map (fun pt => errOf true pt.1 pt.2) := by
  induction pairs with
  | nil => rfl
  | cons pt ps ih =>
    obtain ⟨p, t⟩ := pt
    cases p <;> cases t <;> simp_all [serSub, serMul, both, errOf]

theorem abs_pairs (pairs : List Pair) :
    (serAbs (serSub (pairs.map (·.1)) (pairs.map (·.2)))).filterMap id = (both pairs).map (fun pt => errOf false pt.1 pt.2) := by
  induction pairs with
  | nil => rfl
  | cons pt ps ih =>
    obtain ⟨p, t⟩ := pt
    cases p <;> cases t <;> simp_all [serSub, serAbs, both, errOf]

/-- the error of a pair does not depend on which way round the difference is taken -/
theorem errOf_symm (sq : Bool) (p t : Q) : errOf sq t p = errOf sq p t := by
  cases sq
  · simp only [errOf, absQ, Bool.false_eq_true, if_false]
    split <;> split <;> linarith
  · simp only [errOf, if_true]; ring

theorem sq_pairs_swapped (pairs : List Pair) :
    (serMul (serSub (pairs.map (·.2)) (pairs.map (·.1))) (serSub (pairs.map (·.2)) (pairs.map (·.1)))).filterMap id
      = (both pairs).map (fun pt => errOf true pt.1 pt.2) := by
  induction pairs with
  | nil => rfl
  | cons pt ps ih =>
    obtain ⟨p, t⟩ := pt
    cases p <;> cases t <;> simp_all [serSub, serMul, both]
    rename_i p t
    have := errOf_symm true p t
    simp only [errOf, if_true] at this ⊢
    exact this

theorem abs_pairs_swapped (pairs : List Pair) :
    (serAbs (serSub (pairs.map (·.2)) (pairs.map (·.1)))).filterMap id = (both pairs).map (fun pt => errOf false pt.1 pt.2) := by
  induction pairs with
  | nil => rfl
  | cons pt ps ih =>
    obtain ⟨p, t⟩ := pt
    cases p <;> cases t <;> simp_all [serSub, serAbs, both]
    rename_i p t
    have := errOf_symm false p t
    simp only [errOf, Bool.false_eq_true, if_false] at this ⊢
    exact this

theorem sub_pairs_swapped (pairs : List Pair) :
    ((serSub (pairs.map (·.2)) (pairs.map (·.1))).filterMap id).length = (both pairs).length := by
  induction pairs with
  | nil => rfl
  | cons pt ps ih =>
    obtain ⟨p, t⟩ := pt
    cases p <;> cases t <;> simp_all [serSub, both]

/-- **C07:** the decomposed per-list data of RMSE: the sum of squared errors over the usable pairs, and *their* number -/
theorem rmseComputeListData_eq (root : Q → Q) (pairs : List Pair) : rmseComputeListData root pairs = listData .repaired true pairs := by
  unfold rmseComputeListData listData serSum serCount
  simp only [sq_pairs, sq_pairs_swapped, List.length_map]

theorem maeComputeListData_eq (root : Q → Q) (pairs : List Pair) : maeComputeListData root pairs = listData .repaired false pairs := by
  unfold maeComputeListData listData serSum serCount
  simp only [abs_pairs, abs_pairs_swapped, sub_pairs, sub_pairs_swapped, List.length_map]

theorem rmseExtract_eq (root : Q → Q) (d : Q × Nat) : rmseExtractListMetric root d = (extract d).map root := by
  unfold rmseExtractListMetric extract; split <;> simp_all

theorem maeExtract_eq (root : Q → Q) (d : Q × Nat) : maeExtractListMetric root d = extract d := by
  unfold maeExtractListMetric extract; split <;> simp_all

/-- `measure_list` is the mean error over the usable pairs, undefined (NaN) when there is none -/
theorem rmseMeasureList_eq (root : Q → Q) (pairs : List Pair) : rmseMeasureList root pairs = (measureList true pairs).map root := by
  unfold rmseMeasureList measureList extract listData serMean serSum serCount
  simp only [sq_pairs, sq_pairs_swapped, List.length_map]

theorem maeMeasureList_eq (root : Q → Q) (pairs : List Pair) : maeMeasureList root pairs = measureList false pairs := by
  unfold maeMeasureList measureList extract listData serMean serSum serCount
  simp only [abs_pairs, abs_pairs_swapped, List.length_map]

theorem cast_counts (vals : List (Q × Nat)) :
    sumQ (vals.map (fun x => (x.2 : Q))) = (((vals.map (·.2)).foldr (· + ·) 0 : Nat) : Q) := by
  induction vals with
  | nil => simp [sumQ]
  | cons v vs ih => simp only [List.map_cons, sumQ, List.foldr_cons] at ih ⊢; rw [ih]; push_cast; ring

/-- **C07:** the run-level value pools the per-list sums and counts: it is defined exactly when some pair in the whole run is usable —
    decided on the *total* count, not on the count of the list that happened to come last -/
theorem rmseGlobalAggregate_eq (root : Q → Q) (vals : List (Q × Nat)) :
    rmseGlobalAggregate root vals = (globalAgg .repaired false vals).map root := by
  unfold rmseGlobalAggregate globalAgg serSumQ
  simp only [cast_counts, Rat.zero_add, zero_add]
  by_cases h : (vals.map (·.2)).foldr (· + ·) 0 > 0
  · have : (((vals.map (·.2)).foldr (· + ·) 0 : Nat) : Q) > 0 := by exact_mod_cast h
    simp [h, this]
  · have h0 : (vals.map (·.2)).foldr (· + ·) 0 = 0 := by omega
    simp [h0]

theorem maeGlobalAggregate_eq (root : Q → Q) (vals : List (Q × Nat)) :
    maeGlobalAggregate root vals = globalAgg .repaired true vals := by
  unfold maeGlobalAggregate globalAgg serSumQ
  simp only [cast_counts, Rat.zero_add, zero_add]
  by_cases h : (vals.map (·.2)).foldr (· + ·) 0 > 0
  · have : (((vals.map (·.2)).foldr (· + ·) 0 : Nat) : Q) > 0 := by exact_mod_cast h
    simp [h, this]
  · have h0 : (vals.map (·.2)).foldr (· + ·) 0 = 0 := by omega
    simp [h0]

end LK.SeriesOps
