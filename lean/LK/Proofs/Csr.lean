/-! CSR row pointers over a row-sorted record list: slices are exactly the rows (C01). -/
namespace LK

variable {β : Type}

abbrev SortedByRow (L : List (Nat × β)) : Prop := L.Pairwise (fun a b => a.1 ≤ b.1)

/-- sorted ⇒ the list splits at any row boundary -/
theorem split_lt_ge (L : List (Nat × β)) (h : SortedByRow L) (u : Nat) :
    L = L.filter (fun r => decide (r.1 < u)) ++ L.filter (fun r => decide (u ≤ r.1)) := by
  induction L with
  | nil => simp
  | cons a L ih =>
    have hL : SortedByRow L := (List.pairwise_cons.mp h).2
    have ha : ∀ b ∈ L, a.1 ≤ b.1 := (List.pairwise_cons.mp h).1
    by_cases hau : a.1 < u
    · have : ¬ (u ≤ a.1) := by omega
      simp only [List.filter_cons, hau, this, decide_true, decide_false, if_true, List.cons_append]
      simp only [Bool.false_eq_true, if_false]
      exact congrArg _ (ih hL)
    · have hge : u ≤ a.1 := by omega
      -- nothing after `a` is below u
      have hnone : L.filter (fun r => decide (r.1 < u)) = [] := by
        apply List.filter_eq_nil_iff.mpr
        intro b hb; have := ha b hb; simp; omega
      have hall : L.filter (fun r => decide (u ≤ r.1)) = L := by
        apply List.filter_eq_self.mpr
        intro b hb; have := ha b hb; simp; omega
      simp [List.filter_cons, hau, hge, hnone, hall]

theorem filter_lt_sorted (L : List (Nat × β)) (h : SortedByRow L) (u : Nat) :
    SortedByRow (L.filter (fun r => decide (u ≤ r.1))) := List.Pairwise.filter _ h

/-- number of records strictly below row u -/
def below (L : List (Nat × β)) (u : Nat) : Nat := (L.filter (fun r => decide (r.1 < u))).length
def rowCount (L : List (Nat × β)) (u : Nat) : Nat := (L.filter (fun r => r.1 == u)).length

/-- the code: sizes per row, then cumulative sum -/
def rowPtrs (n : Nat) (L : List (Nat × β)) : List Nat :=
  (List.range (n + 1)).map (fun u => ((List.range u).map (rowCount L)).sum)

theorem below_succ (L : List (Nat × β)) (u : Nat) : below L (u + 1) = below L u + rowCount L u := by
  induction L with
  | nil => simp [below, rowCount]
  | cons a L ih =>
    simp only [below, rowCount, List.filter_cons] at ih ⊢
    by_cases h1 : a.1 < u
    · have h2 : a.1 < u + 1 := by omega
      have h3 : ¬ a.1 = u := by omega
      simp [h1, h2, h3]; omega
    · by_cases h3 : a.1 = u
      · have h2 : a.1 < u + 1 := by omega
        simp [h1, h2, h3] at ih ⊢; omega
      · have h2 : ¬ a.1 < u + 1 := by omega
        simp [h1, h2, h3] at ih ⊢; omega

theorem cumsum_eq_below (L : List (Nat × β)) (u : Nat) : ((List.range u).map (rowCount L)).sum = below L u := by
  induction u with
  | zero =>
    have : L.filter (fun r => decide (r.1 < 0)) = [] := List.filter_eq_nil_iff.mpr (by intro a _; simp)
    show 0 = (L.filter (fun r => decide (r.1 < 0))).length
    rw [this]; rfl
  | succ u ih => rw [List.range_succ, List.map_append, List.sum_append, ih, below_succ]; simp

theorem rowPtrs_get (n : Nat) (L : List (Nat × β)) (u : Nat) (hu : u ≤ n) :
    (rowPtrs n L)[u]? = some (below L u) := by
  simp [rowPtrs, cumsum_eq_below, List.getElem?_map, List.getElem?_range (by omega : u < n + 1)]

/-- the slice [ptr u, ptr (u+1)) of the sorted table is exactly row u -/
theorem row_slice (L : List (Nat × β)) (h : SortedByRow L) (u : Nat) :
    (L.drop (below L u)).take (below L (u + 1) - below L u) = L.filter (fun r => r.1 == u) := by
  have hs := split_lt_ge L h u
  have hdrop : L.drop (below L u) = L.filter (fun r => decide (u ≤ r.1)) := by
    conv => lhs; rw [hs]
    simp [below]
  rw [hdrop, below_succ, Nat.add_sub_cancel_left]
  -- split the ≥u part at u+1
  obtain ⟨G, hG⟩ : ∃ G, G = L.filter (fun r => decide (u ≤ r.1)) := ⟨_, rfl⟩
  rw [← hG]
  have hGs : SortedByRow G := hG ▸ filter_lt_sorted L h u
  have hs2 := split_lt_ge G hGs (u + 1)
  have e1 : G.filter (fun r => decide (r.1 < u + 1)) = L.filter (fun r => r.1 == u) := by
    rw [hG, List.filter_filter]
    apply List.filter_congr
    intro r _
    by_cases h1 : r.1 = u
    · simp [h1]
    · have : ¬ (r.1 < u + 1 ∧ u ≤ r.1) := by omega
      have e : (r.1 == u) = false := by simpa using h1
      rw [e]
      by_cases ha : r.1 < u + 1
      · have hb : ¬ u ≤ r.1 := fun hb => this ⟨ha, hb⟩
        simp [ha, hb]
      · simp [ha]
  rw [e1] at hs2
  conv => lhs; rw [hs2]
  simp [rowCount]

end LK

namespace LK
variable {β : Type}

/-- weighted count of the records strictly below row `u` -/
def wbelow (w : β → Nat) (L : List (Nat × β)) (u : Nat) : Nat := ((L.filter (fun r => decide (r.1 < u))).map (fun r => w r.2)).sum
def wrow (w : β → Nat) (L : List (Nat × β)) (u : Nat) : Nat := ((L.filter (fun r => r.1 == u)).map (fun r => w r.2)).sum

theorem wbelow_succ (w : β → Nat) (L : List (Nat × β)) (u : Nat) : wbelow w L (u + 1) = wbelow w L u + wrow w L u := by
  induction L with
  | nil => simp [wbelow, wrow]
  | cons a L ih =>
    simp only [wbelow, wrow, List.filter_cons] at ih ⊢
    by_cases h1 : a.1 < u
    · have h2 : a.1 < u + 1 := by omega
      have h3 : ¬ a.1 = u := by omega
      simp [h1, h2, h3]; omega
    · by_cases h3 : a.1 = u
      · have h2 : a.1 < u + 1 := by omega
        simp [h1, h2, h3] at ih ⊢; omega
      · have h2 : ¬ a.1 < u + 1 := by omega
        simp [h1, h2, h3] at ih ⊢; omega

theorem wcumsum_eq_wbelow (w : β → Nat) (L : List (Nat × β)) (u : Nat) :
    ((List.range u).map (wrow w L)).sum = wbelow w L u := by
  induction u with
  | zero =>
    have : L.filter (fun r => decide (r.1 < 0)) = [] := List.filter_eq_nil_iff.mpr (by intro a _; simp)
    show 0 = ((L.filter (fun r => decide (r.1 < 0))).map (fun r => w r.2)).sum
    rw [this]; rfl
  | succ u ih => rw [List.range_succ, List.map_append, List.sum_append, ih, wbelow_succ]; simp

#print axioms row_slice
end LK
