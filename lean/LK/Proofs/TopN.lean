import LK.Model.TopN
namespace LK.TopN

theorem geB_trans (s : List Score) (a b c : Nat) : geB s a b → geB s b c → geB s a c := by
  unfold geB
  cases s.getD a none <;> cases s.getD b none <;> cases s.getD c none <;> simp
  intro h1 h2; exact Rat.le_trans h2 h1

theorem geB_total (s : List Score) (a b : Nat) : geB s a b || geB s b a := by
  unfold geB
  cases ha : s.getD a none <;> cases hb : s.getD b none <;> simp
  rename_i x y
  exact (Rat.le_total (a := y) (b := x))

theorem mem_valid {s : List Score} {p : Nat} : p ∈ validPositions s ↔ p < s.length ∧ (s.getD p none).isSome := by
  simp [validPositions]

theorem valid_nodup (s : List Score) : (validPositions s).Nodup :=
  List.Pairwise.filter _ List.nodup_range

theorem sorted_perm (s : List Score) : ((validPositions s).mergeSort (geB s)).Perm (validPositions s) :=
  List.mergeSort_perm _ _

theorem sorted_pairwise (s : List Score) : ((validPositions s).mergeSort (geB s)).Pairwise (fun a b => geB s a b) :=
  List.pairwise_mergeSort (geB_trans s) (geB_total s) _

/-- output positions are valid, distinct -/
theorem argtopn_sub (s : List Score) (n : Int) : ∀ p ∈ argtopn s n, p ∈ validPositions s := by
  intro p hp
  unfold argtopn at hp
  split at hp
  · simp at hp
  · split at hp
    · exact (sorted_perm s).mem_iff.mp hp
    · exact (sorted_perm s).mem_iff.mp (List.mem_of_mem_take hp)

theorem argtopn_nodup (s : List Score) (n : Int) : (argtopn s n).Nodup := by
  have h : ((validPositions s).mergeSort (geB s)).Nodup := (sorted_perm s).nodup_iff.mpr (valid_nodup s)
  unfold argtopn
  split
  · simp
  · split
    · exact h
    · exact h.sublist (List.take_sublist _ _)

/-- non-increasing score order -/
theorem argtopn_sorted (s : List Score) (n : Int) : (argtopn s n).Pairwise (fun a b => geB s a b) := by
  unfold argtopn
  split
  · simp
  · split
    · exact sorted_pairwise s
    · exact (sorted_pairwise s).sublist (List.take_sublist _ _)

/-- length = min(n, #scorable); all of them for n < 0 -/
theorem argtopn_length (s : List Score) (n : Int) :
    (argtopn s n).length = if n < 0 then (validPositions s).length else min n.toNat (validPositions s).length := by
  unfold argtopn
  by_cases h0 : n = 0
  · subst h0; simp
  · simp only [h0, if_false]
    by_cases hn : n < 0
    · simp [hn, (sorted_perm s).length_eq]
    · simp [hn, List.length_take, (sorted_perm s).length_eq]

/-- top-n-ness: nothing left out beats anything included -/
theorem argtopn_optimal (s : List Score) (n : Int) (q : Nat) (hq : q ∈ validPositions s)
    (hout : q ∉ argtopn s n) : ∀ p ∈ argtopn s n, geB s p q := by
  intro p hp
  unfold argtopn at hp hout
  by_cases h0 : n = 0
  · simp [h0] at hp
  · simp only [h0, if_false] at hp hout
    by_cases hn : n < 0
    · simp only [hn, if_true] at hp hout
      exact absurd ((sorted_perm s).mem_iff.mpr hq) hout
    · simp only [hn, if_false] at hp hout
      -- q is in the sorted list but not in the prefix, p is in the prefix
      have hqs : q ∈ (validPositions s).mergeSort (geB s) := (sorted_perm s).mem_iff.mpr hq
      have hsplit := List.take_append_drop n.toNat ((validPositions s).mergeSort (geB s))
      have hqd : q ∈ ((validPositions s).mergeSort (geB s)).drop n.toNat := by
        rw [← hsplit] at hqs
        rcases List.mem_append.mp hqs with h | h
        · exact absurd h hout
        · exact h
      have hpw := sorted_pairwise s
      rw [← hsplit] at hpw
      exact (List.pairwise_append.mp hpw).2.2 p hp q hqd

theorem runtime_n_overrides (s : List Score) (cfg : Option Int) (n : Int) : rank s cfg (some n) = argtopn s n := rfl

#print axioms argtopn_optimal
#print axioms argtopn_length
end LK.TopN
