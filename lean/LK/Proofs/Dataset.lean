import LK.Model.Dataset
import LK.Proofs.Csr
namespace LK.DS

variable {ι β : Type} [DecidableEq ι]

theorem dedup_nodup (xs : List ι) : (dedup xs).Nodup := by
  induction xs with
  | nil => simp [dedup]
  | cons x xs ih =>
    simp only [dedup]
    split
    · exact ih
    · rename_i h
      refine List.nodup_cons.mpr ⟨?_, ih⟩
      intro hx
      have : ∀ ys : List ι, ∀ y, y ∈ dedup ys → y ∈ ys := by
        intro ys
        induction ys with
        | nil => simp [dedup]
        | cons z zs ihz =>
          intro y hy
          simp only [dedup] at hy
          split at hy
          · exact List.mem_cons_of_mem _ (ihz y hy)
          · rcases List.mem_cons.mp hy with rfl | hy
            · exact List.mem_cons_self
            · exact List.mem_cons_of_mem _ (ihz y hy)
      exact h (this xs x hx)

theorem mem_dedup (xs : List ι) (y : ι) : y ∈ dedup xs ↔ y ∈ xs := by
  induction xs with
  | nil => simp [dedup]
  | cons x xs ih =>
    simp only [dedup]
    split
    · rename_i h
      rw [ih]
      constructor
      · exact List.mem_cons_of_mem _
      · intro hy
        rcases List.mem_cons.mp hy with rfl | hy
        · exact h
        · exact hy
    · simp [ih]

theorem uniqueSorted_nodup (le : ι → ι → Bool) (xs : List ι) : (uniqueSorted le xs).Nodup :=
  (sortBy_perm le _).nodup_iff.mpr (dedup_nodup xs)

/-- numbers already assigned never change: the old vocabulary is a prefix of the new one -/
theorem addEntities_prefix (le : ι → ι → Bool) (v src : List ι) (dup : Dup) (v' : List ι)
    (h : addEntities le v src dup = .ok v') : v <+: v' := by
  unfold addEntities at h
  simp only at h
  split at h
  · simp at h
  · split at h
    · simp at h
    · simp only [Except.ok.injEq] at h
      subst h
      exact List.prefix_append _ _

/-- identifiers stay distinct -/
theorem addEntities_nodup (le : ι → ι → Bool) (v src : List ι) (dup : Dup) (v' : List ι)
    (hv : v.Nodup) (h : addEntities le v src dup = .ok v') : v'.Nodup := by
  unfold addEntities at h
  simp only at h
  split at h
  · simp at h
  · split at h
    · simp at h
    · simp only [Except.ok.injEq] at h
      subst h
      refine List.nodup_append.mpr ⟨hv, ?_, ?_⟩
      · exact (uniqueSorted_nodup le src).sublist List.filter_sublist
      · intro a ha b hb hab
        subst hab
        have := (List.mem_filter.mp hb).2
        simp at this
        exact this ha

/-- every supplied identifier is in the vocabulary afterwards -/
theorem addEntities_complete (le : ι → ι → Bool) (v src : List ι) (dup : Dup) (v' : List ι)
    (h : addEntities le v src dup = .ok v') : ∀ x ∈ src, x ∈ v' := by
  intro x hx
  unfold addEntities at h
  simp only at h
  split at h
  · simp at h
  · split at h
    · simp at h
    · simp only [Except.ok.injEq] at h
      subst h
      by_cases hxv : x ∈ v
      · exact List.mem_append_left _ hxv
      · apply List.mem_append_right
        apply List.mem_filter.mpr
        refine ⟨?_, by simpa using hxv⟩
        exact (sortBy_perm le _).mem_iff.mpr ((mem_dedup src x).mpr hx)

/-- a one-shot build numbers identifiers in ascending order -/
theorem addEntities_oneshot_sorted (le : ι → ι → Bool)
    (trans : ∀ a b c, le a b → le b c → le a c) (total : ∀ a b, le a b || le b a)
    (src : List ι) (dup : Dup) (v' : List ι) (h : addEntities le [] src dup = .ok v') :
    v'.Pairwise (fun a b => le a b = true ∧ a ≠ b) := by
  unfold addEntities at h
  simp only at h
  split at h
  · simp at h
  · split at h
    · simp at h
    · simp only [Except.ok.injEq, List.nil_append] at h
      subst h
      have hall : (uniqueSorted le src).filter (fun x => decide (x ∉ ([] : List ι))) = uniqueSorted le src := by
        apply List.filter_eq_self.mpr; intro a _; simp
      rw [hall]
      have h1 : (uniqueSorted le src).Pairwise (fun a b => le a b = true) := sortBy_pairwise le trans total _
      have h2 : (uniqueSorted le src).Pairwise (fun a b => a ≠ b) := uniqueSorted_nodup le src
      exact (h1.and h2)

theorem number_some_iff (v : List ι) (hv : v.Nodup) (x : ι) (k : Nat) :
    number v x = some k ↔ v[k]? = some x := by
  unfold number
  simp only
  constructor
  · intro h
    split at h
    · rename_i hlt
      simp only [Option.some.injEq] at h
      subst h
      rw [List.getElem?_eq_getElem hlt]
      simp [List.getElem_idxOf]
    · simp at h
  · intro h
    obtain ⟨hk, hkx⟩ := List.getElem?_eq_some_iff.mp h
    have hmem : x ∈ v := hkx ▸ List.getElem_mem hk
    have hlt : v.idxOf x < v.length := List.idxOf_lt_length_iff.mpr hmem
    simp only [hlt, if_true, Option.some.injEq]
    have := List.getElem_idxOf hlt
    exact (List.getElem_inj hv).mp (this.trans hkx.symm)

theorem number_none_iff (v : List ι) (x : ι) : number v x = none ↔ x ∉ v := by
  unfold number
  simp only
  constructor
  · intro h hx
    have := List.idxOf_lt_length_iff.mpr hx
    simp [this] at h
  · intro hx
    have : ¬ v.idxOf x < v.length := fun h => hx (List.idxOf_lt_length_iff.mp h)
    simp [this]

#print axioms addEntities_prefix
#print axioms number_some_iff
end LK.DS

namespace LK.DS
variable {ι β : Type} [DecidableEq ι]

theorem ensure_prefix (le : ι → ι → Bool) (v ids : List ι) : v <+: ensure le v ids := by
  unfold ensure
  split
  · rename_i v' h; exact addEntities_prefix le v _ _ v' h
  · exact List.prefix_refl _

theorem ensure_nodup (le : ι → ι → Bool) (v ids : List ι) (hv : v.Nodup) : (ensure le v ids).Nodup := by
  unfold ensure
  split
  · rename_i v' h; exact addEntities_nodup le v _ _ v' hv h
  · exact hv

/-- **C01 (stable numbering), one step:** whatever the operation and whether or not it fails,
    the identifiers already numbered keep their numbers -/
theorem step_prefix (le : ι → ι → Bool) (tm : β → Option Int) (b : Builder ι β) (op : Op ι β) :
    b.users <+: (step le tm b op).1.users ∧ b.items <+: (step le tm b op).1.items := by
  cases op with
  | addEntities c ids dup =>
    cases c with
    | user =>
      simp only [step]
      split
      · rename_i v h; exact ⟨addEntities_prefix le _ _ _ v h, List.prefix_refl _⟩
      · exact ⟨List.prefix_refl _, List.prefix_refl _⟩
    | item =>
      simp only [step]
      split
      · rename_i v h; exact ⟨List.prefix_refl _, addEntities_prefix le _ _ _ v h⟩
      · exact ⟨List.prefix_refl _, List.prefix_refl _⟩
  | addInteractions rows missing =>
    simp only [step]
    by_cases hm : missing = .insert
    · simp only [hm, if_true]
      have hu := ensure_prefix le b.users (rows.map (·.1))
      have hi := ensure_prefix le b.items (rows.map (·.2.1))
      split
      · exact ⟨hu, List.prefix_refl _⟩
      · split
        · exact ⟨hu, hi⟩
        · split
          · exact ⟨hu, hi⟩
          · exact ⟨hu, hi⟩
    · simp only [hm, if_false]
      split
      · exact ⟨List.prefix_refl _, List.prefix_refl _⟩
      · split
        · exact ⟨List.prefix_refl _, List.prefix_refl _⟩
        · split <;> exact ⟨List.prefix_refl _, List.prefix_refl _⟩
  | filterTime minT maxT =>
    simp only [step]
    split <;> exact ⟨List.prefix_refl _, List.prefix_refl _⟩
  | remove tbl => exact ⟨List.prefix_refl _, List.prefix_refl _⟩
  | clear => exact ⟨List.prefix_refl _, List.prefix_refl _⟩

/-- **C01 (stable numbering), all histories** -/
theorem run_prefix (le : ι → ι → Bool) (tm : β → Option Int) (ops : List (Op ι β)) :
    ∀ (b : Builder ι β), b.users <+: (run le tm b ops).users ∧ b.items <+: (run le tm b ops).items := by
  induction ops with
  | nil => intro b; exact ⟨List.prefix_refl _, List.prefix_refl _⟩
  | cons op ops ih =>
    intro b
    have h1 := step_prefix le tm b op
    have h2 := ih (step le tm b op).1
    simp only [run, List.foldl_cons] at h2 ⊢
    exact ⟨h1.1.trans h2.1, h1.2.trans h2.2⟩

/-- a known identifier keeps its number across any history -/
theorem number_stable (le : ι → ι → Bool) (tm : β → Option Int) (ops : List (Op ι β)) (b : Builder ι β)
    (x : ι) (k : Nat) (h : b.users[k]? = some x) : (run le tm b ops).users[k]? = some x := by
  obtain ⟨t, ht⟩ := (run_prefix le tm ops b).1
  rw [← ht]
  have hk : k < b.users.length := (List.getElem?_eq_some_iff.mp h).1
  rw [List.getElem?_append_left hk]; exact h

#print axioms run_prefix
end LK.DS

namespace LK.DS
variable {ι β : Type} [DecidableEq ι]

/-- what a stored record denotes: the identifiers at its row/column numbers, and its attribute values -/
def decode (b : Builder ι β) (r : Rec β) : Option ι × Option ι × β := (b.users[r.u]?, b.items[r.i]?, r.a)

theorem newRecs_cons (users items : List ι) (row : ι × ι × β) (rows : List (ι × ι × β)) :
    newRecs users items (row :: rows) =
      (match number users row.1, number items row.2.1 with
        | some u, some i => [{ u := u, i := i, a := row.2.2 }]
        | _, _ => []) ++ newRecs users items rows := by
  simp only [newRecs, List.map_cons, List.zip_cons_cons, List.filterMap_cons]
  cases number users row.1 <;> cases number items row.2.1 <;> rfl

/-- **C01 (nothing lost, duplicated or re-attached on insertion):** the appended records denote exactly
    the input rows whose identifiers are known, in input order, each with its own attribute values -/
theorem newRecs_denote (users items : List ι) (hu : users.Nodup) (hi : items.Nodup) (rows : List (ι × ι × β)) :
    (newRecs users items rows).map (fun r => (users[r.u]?, items[r.i]?, r.a))
      = (rows.filter (fun r => decide (r.1 ∈ users ∧ r.2.1 ∈ items))).map (fun r => (some r.1, some r.2.1, r.2.2)) := by
  induction rows with
  | nil => rfl
  | cons row rows ih =>
    rw [newRecs_cons, List.map_append, ih, List.filter_cons]
    cases hnu : number users row.1 with
    | none =>
      have : row.1 ∉ users := (number_none_iff users row.1).mp hnu
      simp [this]
    | some u =>
      have hu' : users[u]? = some row.1 := (number_some_iff users hu row.1 u).mp hnu
      have hmu : row.1 ∈ users := List.mem_of_getElem? hu'
      cases hni : number items row.2.1 with
      | none =>
        have : row.2.1 ∉ items := (number_none_iff items row.2.1).mp hni
        simp [this]
      | some i =>
        have hi' : items[i]? = some row.2.1 := (number_some_iff items hi row.2.1 i).mp hni
        have hmi : row.2.1 ∈ items := List.mem_of_getElem? hi'
        simp [hmu, hmi, hu', hi']

/-- with `missing="insert"` every row is kept -/
theorem newRecs_insert_all (users items : List ι) (hu : users.Nodup) (hi : items.Nodup) (rows : List (ι × ι × β))
    (hk : ∀ r ∈ rows, r.1 ∈ users ∧ r.2.1 ∈ items) :
    (newRecs users items rows).map (fun r => (users[r.u]?, items[r.i]?, r.a))
      = rows.map (fun r => (some r.1, some r.2.1, r.2.2)) := by
  rw [newRecs_denote users items hu hi rows]
  congr 1
  apply List.filter_eq_self.mpr
  intro r hr
  simpa using hk r hr

/-- number stability makes every stored record keep its denotation when vocabularies grow -/
theorem decode_stable (b b' : Builder ι β) (hu : b.users <+: b'.users) (hi : b.items <+: b'.items)
    (r : Rec β) (hru : r.u < b.users.length) (hri : r.i < b.items.length) :
    decode b' r = decode b r := by
  obtain ⟨tu, htu⟩ := hu
  obtain ⟨ti, hti⟩ := hi
  simp only [decode, ← htu, ← hti, List.getElem?_append_left hru, List.getElem?_append_left hri]

/-- the matrix view is a rearrangement of the stored records: nothing lost, nothing duplicated -/
theorem sortedRecs_perm (b : Builder ι β) : (sortedRecs b).Perm b.recs := sortBy_perm _ _

#print axioms newRecs_denote
end LK.DS
