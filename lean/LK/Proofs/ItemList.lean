import LK.Model.ItemList
import LK.Prelude.Basic
namespace LK.IL

variable {ι : Type} [DecidableEq ι]

theorem pick_length {α} (l : List α) (sel : List Nat) (h : ∀ k ∈ sel, k < l.length) : (pick l sel).length = sel.length := by
  induction sel with
  | nil => rfl
  | cons k ks ih =>
    have hk := h k List.mem_cons_self
    simp only [pick, List.filterMap_cons, List.getElem?_eq_getElem hk, List.length_cons]
    have := ih (fun j hj => h j (List.mem_cons_of_mem _ hj))
    simp only [pick] at this
    rw [this]

theorem pick_map {α β} (f : α → β) (l : List α) (sel : List Nat) : pick (l.map f) sel = (pick l sel).map f := by
  induction sel with
  | nil => rfl
  | cons k ks ih =>
    simp only [pick, List.filterMap_cons, List.getElem?_map] at ih ⊢
    cases l[k]? with
    | none => simpa using ih
    | some a => simp [ih]

/-- **C16 (subsetting keeps rows together):** selecting positions keeps identifiers, numbers and every
    field aligned -/
theorem getitem_aligned {φ} (il : IL ι φ) (sel : List Nat) (h : Aligned il) (hs : ∀ k ∈ sel, k < il.len) :
    Aligned (getitem il sel) := by
  obtain ⟨hi, hn, hf, hv⟩ := h
  refine ⟨?_, ?_, ?_, ?_⟩
  · intro i hi'
    simp only [getitem, Option.map_eq_some_iff] at hi'
    obtain ⟨i0, h0, rfl⟩ := hi'
    exact pick_length i0 sel (by rw [hi i0 h0]; exact hs)
  · intro n hn'
    simp only [getitem, Option.map_eq_some_iff] at hn'
    obtain ⟨n0, h0, rfl⟩ := hn'
    exact pick_length n0 sel (by rw [hn n0 h0]; exact hs)
  · intro nf hnf
    simp only [getitem, List.mem_map] at hnf
    obtain ⟨nf0, h0, rfl⟩ := hnf
    exact pick_length nf0.2 sel (by rw [hf nf0 h0]; exact hs)
  · intro v i n hv' hi' hn'
    simp only [getitem, Option.map_eq_some_iff] at hv' hi' hn'
    obtain ⟨i0, hi0, rfl⟩ := hi'
    obtain ⟨n0, hn0, rfl⟩ := hn'
    rw [hv v i0 n0 hv' hi0 hn0, pick_map]

/-- the source list is a value: selecting from it does not change it (immutability is structural in
    the model; the harness checks the Python object) and the selected identifiers are the picks -/
theorem getitem_ids {φ} (il : IL ι φ) (sel : List Nat) (i : List ι) (h : il.ids = some i) :
    idsOf (getitem il sel) = .ok (pick i sel) := by
  simp [idsOf, getitem, h]

theorem numberOf_getElem (v : Vocab ι) (hv : v.Nodup) (k : Nat) (hk : k < v.length) : numberOf v v[k] = (k : Int) := by
  unfold numberOf
  have hmem : v[k] ∈ v := List.getElem_mem hk
  have hlt : v.idxOf v[k] < v.length := List.idxOf_lt_length_iff.mpr hmem
  simp only [hlt, if_true]
  have := List.getElem_idxOf hlt
  have := (List.getElem_inj hv).mp this
  omega

/-- lazily computed numbers agree with the stored identifiers -/
theorem cacheNums_aligned {φ} (il : IL ι φ) (h : Aligned il) : Aligned (cacheNums il) := by
  cases il with
  | mk len ids nums vocab fields ordered =>
    cases nums with
    | some n => exact h
    | none =>
      cases vocab with
      | none => exact h
      | some v =>
        cases ids with
        | none => exact h
        | some i =>
          obtain ⟨h1, h2, h3, h4⟩ := h
          refine ⟨h1, ?_, h3, ?_⟩
          · intro n' hn'
            simp only [cacheNums, Option.some.injEq] at hn'
            subst hn'
            have := h1 i rfl
            simp only [cacheNums, List.length_map]
            exact this
          · intro v' i' n' hv' hi' hn'
            simp only [cacheNums, Option.some.injEq] at hv' hi' hn'
            subst hv' hi' hn'
            rfl

/-- filling the number cache does not change what the list denotes -/
theorem cacheNums_ids {φ} (il : IL ι φ) : idsOf (cacheNums il) = idsOf il := by
  unfold cacheNums
  cases hn : il.nums with
  | some n => rfl
  | none =>
    cases hv : il.vocab with
    | none => rfl
    | some v =>
      cases hi : il.ids with
      | none => rfl
      | some i => simp [idsOf, hi]

def exIL : IL String Nat :=
  { len := 2
    ids := some ["c", "a"]
    nums := some [2, 0]
    vocab := some ["a", "b", "c"]
    fields := []
    ordered := false }

/-- replacing the vocabulary: as it stands the stored numbers go stale … -/
example : (withVocab .asIs exIL ["c", "b", "z"]).toOption.map (fun il => numbersOf il none .negative)
    = some (.ok [2, 0]) := by decide
/-- … whereas the identifiers resolve to `[0, -1]` in the new vocabulary -/
example : (withVocab .repaired exIL ["c", "b", "z"]).toOption.map (fun il => numbersOf il none .negative)
    = some (.ok [0, -1]) := by decide

#print axioms getitem_aligned
#print axioms cacheNums_aligned
end LK.IL
