import LK.Model.NegSample
namespace LK.Neg

/-- every (row, col) pair of the result is unobserved, unless a warning was raised -/
def AllOk (m : Mat) (rows cols : List Nat) (warned : Bool) : Prop :=
  ∀ rc ∈ rows.zip cols, isObs m rc.1 rc.2 = true → warned = true

theorem combine_injective (r c r' c' : Nat) (hc : c < 2 ^ 32) (hc' : c' < 2 ^ 32)
    (h : combine r c = combine r' c') : r = r' ∧ c = c' := by
  unfold combine at h
  have h1 : (r * 2 ^ 32 + c) / 2 ^ 32 = (r' * 2 ^ 32 + c') / 2 ^ 32 := by rw [h]
  have h2 : (r * 2 ^ 32 + c) % 2 ^ 32 = (r' * 2 ^ 32 + c') % 2 ^ 32 := by rw [h]
  have p : 0 < 2 ^ 32 := by decide
  rw [Nat.mul_comm r, Nat.mul_comm r', Nat.mul_add_div p, Nat.mul_add_div p,
    Nat.div_eq_of_lt hc, Nat.div_eq_of_lt hc'] at h1
  rw [Nat.mul_comm r, Nat.mul_comm r', Nat.mul_add_mod, Nat.mul_add_mod,
    Nat.mod_eq_of_lt hc, Nat.mod_eq_of_lt hc'] at h2
  exact ⟨by omega, h2⟩

theorem scatter_length (cols : List Nat) (bad : List Bool) (new : List Nat) (h : bad.length = cols.length) :
    (scatter cols bad new).length = cols.length := by
  induction cols generalizing bad new with
  | nil => cases bad <;> simp [scatter]
  | cons c cs ih =>
    cases bad with
    | nil => simp at h
    | cons b bs =>
      have hb : bs.length = cs.length := by simpa using h
      cases b with
      | false => simp [scatter, ih bs new hb]
      | true => cases new with
        | nil => simp [scatter, ih bs [] hb]
        | cons n new => simp [scatter, ih bs new hb]

/-- scatter keeps the good positions and installs verified replacements at the bad ones -/
theorem scatter_ok (m : Mat) (w : Bool) : ∀ (rows cols new : List Nat),
    rows.length = cols.length →
    new.length = (selectRows rows (List.zipWith (isObs m) rows cols)).length →
    AllOk m (selectRows rows (List.zipWith (isObs m) rows cols)) new w →
    AllOk m rows (scatter cols (List.zipWith (isObs m) rows cols) new) w := by
  intro rows
  induction rows with
  | nil => intro cols new h _ _; cases cols <;> simp [AllOk, scatter]
  | cons r rs ih =>
    intro cols new h hn hok
    cases cols with
    | nil => simp at h
    | cons c cs =>
      have hl : rs.length = cs.length := by simpa using h
      simp only [List.zipWith_cons_cons] at hn hok ⊢
      cases hobs : isObs m r c with
      | false =>
        simp only [hobs, selectRows, scatter] at hn hok ⊢
        intro rc hrc
        simp only [List.zip_cons_cons, List.mem_cons] at hrc
        rcases hrc with rfl | hrc
        · intro h'; simp [hobs] at h'
        · exact ih cs new hl hn hok rc hrc
      | true =>
        simp only [hobs, selectRows] at hn hok
        cases new with
        | nil => simp at hn
        | cons n new =>
          simp only [scatter]
          intro rc hrc
          simp only [List.zip_cons_cons, List.mem_cons] at hrc
          rcases hrc with rfl | hrc
          · exact hok (r, n) (by simp)
          · refine ih cs new hl (by simpa using hn) ?_ rc hrc
            intro rc' hrc'
            exact hok rc' (by simp [hrc'])

theorem verified_or_warned (m : Mat) (w : Weighting) : ∀ (a : Nat),
    (∀ rows ds o, sampleVerified m w a rows ds = some o → o.cols.length = rows.length ∧ AllOk m rows o.cols o.warned) ∧
    (∀ rows cols ds o, rows.length = cols.length → resample m w a rows cols ds = some o →
        o.cols.length = rows.length ∧ AllOk m rows o.cols o.warned) := by
  intro a
  induction a with
  | zero =>
    have hr : ∀ rows cols ds o, rows.length = cols.length → resample m w 0 rows cols ds = some o →
        o.cols.length = rows.length ∧ AllOk m rows o.cols o.warned := by
      intro rows cols ds o hl h
      simp only [resample, Option.some.injEq] at h
      subst h
      refine ⟨hl.symm, ?_⟩
      intro rc hrc hobs
      simp only [List.any_eq_true, id]
      refine ⟨true, ?_, rfl⟩
      rw [List.mem_iff_getElem] at hrc ⊢
      obtain ⟨i, hi, he⟩ := hrc
      refine ⟨i, by simpa [List.length_zipWith] using hi, ?_⟩
      have : (rows.zip cols)[i] = (rows[i]'(by simp at hi; omega), cols[i]'(by simp at hi; omega)) := by simp
      simp only [List.getElem_zipWith]
      rw [this] at he; rw [← he] at hobs; exact hobs
    refine ⟨?_, hr⟩
    intro rows ds o h
    cases ds with
    | nil => simp [sampleVerified] at h
    | cons d ds =>
      simp only [sampleVerified] at h
      split at h
      · simp at h
      · rename_i hlen
        have hlen' : d.length = rows.length := by simpa using hlen
        exact hr rows _ ds o (by simp [hlen']) h
  | succ a ih =>
    obtain ⟨ihS, _⟩ := ih
    have hr : ∀ rows cols ds o, rows.length = cols.length → resample m w (a + 1) rows cols ds = some o →
        o.cols.length = rows.length ∧ AllOk m rows o.cols o.warned := by
      intro rows cols ds o hl h
      simp only [resample] at h
      split at h
      · -- some bad positions: recurse
        split at h
        · simp at h
        · rename_i o' ho'
          simp only [Option.some.injEq] at h
          subst h
          obtain ⟨hlen, hok⟩ := ihS _ _ _ ho'
          refine ⟨by rw [scatter_length _ _ _ (by simp [List.length_zipWith, hl])]; exact hl.symm, ?_⟩
          exact scatter_ok m o'.warned rows cols o'.cols hl hlen hok
      · rename_i hnone
        simp only [Option.some.injEq] at h
        subst h
        refine ⟨hl.symm, ?_⟩
        intro rc hrc hobs
        exfalso
        apply hnone
        simp only [List.any_eq_true, id]
        refine ⟨true, ?_, rfl⟩
        rw [List.mem_iff_getElem] at hrc ⊢
        obtain ⟨i, hi, he⟩ := hrc
        refine ⟨i, by simpa [List.length_zipWith] using hi, ?_⟩
        have : (rows.zip cols)[i] = (rows[i]'(by simp at hi; omega), cols[i]'(by simp at hi; omega)) := by simp
        simp only [List.getElem_zipWith]
        rw [this] at he; rw [← he] at hobs; exact hobs
    refine ⟨?_, hr⟩
    intro rows ds o h
    cases ds with
    | nil => simp [sampleVerified] at h
    | cons d ds =>
      simp only [sampleVerified] at h
      split at h
      · simp at h
      · rename_i hlen
        have hlen' : d.length = rows.length := by simpa using hlen
        exact hr rows _ ds o (by simp [hlen']) h

#print axioms verified_or_warned
#print axioms combine_injective
end LK.Neg

namespace LK.Neg

theorem scatter_mem (cols : List Nat) (bad : List Bool) (new : List Nat) :
    ∀ c ∈ scatter cols bad new, c ∈ cols ∨ c ∈ new := by
  induction cols generalizing bad new with
  | nil => intro c hc; cases bad <;> simp [scatter] at hc
  | cons x xs ih =>
    intro c hc
    cases bad with
    | nil => simp [scatter] at hc; exact Or.inl (by simpa using hc)
    | cons b bs =>
      cases b with
      | false =>
        simp only [scatter, List.mem_cons] at hc
        rcases hc with rfl | hc
        · exact Or.inl List.mem_cons_self
        · rcases ih bs new c hc with h | h
          · exact Or.inl (List.mem_cons_of_mem _ h)
          · exact Or.inr h
      | true =>
        cases new with
        | nil =>
          simp only [scatter, List.mem_cons] at hc
          rcases hc with rfl | hc
          · exact Or.inl List.mem_cons_self
          · rcases ih bs [] c hc with h | h
            · exact Or.inl (List.mem_cons_of_mem _ h)
            · exact Or.inr h
        | cons n ns =>
          simp only [scatter, List.mem_cons] at hc
          rcases hc with rfl | hc
          · exact Or.inr List.mem_cons_self
          · rcases ih bs ns c hc with h | h
            · exact Or.inl (List.mem_cons_of_mem _ h)
            · exact Or.inr (List.mem_cons_of_mem _ h)

/-- **C20 (valid columns):** every returned column is the decoding of one of the random draws —
    a column number for uniform weighting, an entry of the stored column array for popularity weighting -/
theorem cols_from_draws (m : Mat) (w : Weighting) : ∀ (a : Nat),
    (∀ rows ds o, sampleVerified m w a rows ds = some o → ∀ c ∈ o.cols, ∃ d ∈ ds.flatten, c = decode m w d) ∧
    (∀ rows cols ds o, resample m w a rows cols ds = some o → ∀ c ∈ o.cols, c ∈ cols ∨ ∃ d ∈ ds.flatten, c = decode m w d) := by
  intro a
  induction a with
  | zero =>
    have hr : ∀ rows cols ds o, resample m w 0 rows cols ds = some o →
        ∀ c ∈ o.cols, c ∈ cols ∨ ∃ d ∈ ds.flatten, c = decode m w d := by
      intro rows cols ds o h c hc
      simp only [resample, Option.some.injEq] at h
      subst h; exact Or.inl hc
    refine ⟨?_, hr⟩
    intro rows ds o h c hc
    cases ds with
    | nil => simp [sampleVerified] at h
    | cons d ds =>
      simp only [sampleVerified] at h
      split at h
      · simp at h
      · rcases hr rows _ ds o h c hc with h' | ⟨x, hx, rfl⟩
        · obtain ⟨y, hy, rfl⟩ := List.mem_map.mp h'
          exact ⟨y, by simp [hy], rfl⟩
        · exact ⟨x, by simp [List.mem_flatten] at hx ⊢; exact Or.inr hx, rfl⟩
  | succ a ih =>
    obtain ⟨ihS, _⟩ := ih
    have hr : ∀ rows cols ds o, resample m w (a + 1) rows cols ds = some o →
        ∀ c ∈ o.cols, c ∈ cols ∨ ∃ d ∈ ds.flatten, c = decode m w d := by
      intro rows cols ds o h c hc
      simp only [resample] at h
      split at h
      · split at h
        · simp at h
        · rename_i o' ho'
          simp only [Option.some.injEq] at h
          subst h
          rcases scatter_mem _ _ _ c hc with h' | h'
          · exact Or.inl h'
          · exact Or.inr (ihS _ _ _ ho' c h')
      · simp only [Option.some.injEq] at h
        subst h; exact Or.inl hc
    refine ⟨?_, hr⟩
    intro rows ds o h c hc
    cases ds with
    | nil => simp [sampleVerified] at h
    | cons d ds =>
      simp only [sampleVerified] at h
      split at h
      · simp at h
      · rcases hr rows _ ds o h c hc with h' | ⟨x, hx, rfl⟩
        · obtain ⟨y, hy, rfl⟩ := List.mem_map.mp h'
          exact ⟨y, by simp [hy], rfl⟩
        · exact ⟨x, by simp [List.mem_flatten] at hx ⊢; exact Or.inr hx, rfl⟩

/-- popularity weighting only draws columns that occur in the data -/
theorem popular_in_data (m : Mat) (d : Nat) (hd : d < m.storedCols.length) : decode m .popular d ∈ m.storedCols := by
  simp only [decode, List.getD_eq_getElem?_getD, List.getElem?_eq_getElem hd, Option.getD_some]
  exact List.getElem_mem hd

/-- every eligible column can be drawn: a stream whose first draw hits it returns it -/
theorem every_column_reachable (m : Mat) (r c : Nat) (hfree : isObs m r c = false) (a : Nat) :
    sampleVerified m .uniform a [r] [[c]] = some { cols := [c], warned := false, rest := [] } := by
  cases a with
  | zero => simp [sampleVerified, resample, decode, hfree]
  | succ a => simp [sampleVerified, resample, decode, hfree]

#print axioms cols_from_draws
end LK.Neg
