import LK.Generated.GuardsC01
/-!
# C01 — obligations on the translated guard of `MatrixRelationshipSet.row_items`
(`LK.Gen.GuardsC01` is regenerated from the source on every run of `./check C01`.)
-/
set_option linter.unusedSimpArgs false
namespace LK.Gen.GuardsC01

/-- a row table that exists — even an empty one (truth value 0) — is turned into an item list: every known entity has a row -/
theorem rowItems_present (k : Int) : rowItemsBranch (some k) = 1 := by
  simp [rowItemsBranch, LK.Py.truthy]

/-- only an absent table gives no row -/
theorem rowItems_absent : rowItemsBranch none = 0 := by
  simp [rowItemsBranch, LK.Py.truthy]

/-! ### identifiers ↔ numbers -/

/-- the row looked at: a given number (0 included) as it is; otherwise what the vocabulary answers for the identifier — and an
    identifier the vocabulary does not know gives no number, hence no row (never some other row) -/
theorem rowNumber_spec (number ident looked : LK.Py.V) :
    rowNumber number ident looked = (match number with | some n => some n | none => looked) := by
  cases number <;> cases looked <;> simp [rowNumber]

theorem rowNumber_unknown (ident : LK.Py.V) : rowNumber none ident none = none := by simp [rowNumber]

/-- `Vocabulary.number`: an unknown term raises exactly when `missing="error"`; otherwise the answer is `None` -/
theorem vocabNumber_missing (b : Bool) : vocabNumberMissingBranch b = 0 ↔ b = true := by cases b <;> simp [vocabNumberMissingBranch]

/-- `Vocabulary.numbers`: `KeyError` exactly when unknown terms are an error and there is one; with `missing="negative"` unknown terms
    keep their negative marker -/
theorem vocabNumbers_error_iff (missingIsError anyUnknown : Bool) :
    vocabNumbersErrorBranch missingIsError anyUnknown = 0 ↔ (missingIsError = true ∧ anyUnknown = true) := by
  cases missingIsError <;> cases anyUnknown <;> simp [vocabNumbersErrorBranch]

/-- **negative numbers never index from the end:** `Vocabulary.term` rejects every negative number, and no other -/
theorem vocabTerm_negative_iff (num : Int) : vocabTermNegativeBranch num = 0 ↔ num < 0 := by
  simp [vocabTermNegativeBranch, LK.Py.lt, LK.Py.gt]

/-- …and so does `Vocabulary.terms` for arrays -/
theorem vocabTerms_negative_iff (b : Bool) : vocabTermsNegativeBranch b = 0 ↔ b = true := by cases b <;> simp [vocabTermsNegativeBranch]

end LK.Gen.GuardsC01
