import LK.Generated.GuardsC01
/-!
# C01 — obligations on the translated guard of `MatrixRelationshipSet.row_items`
(`LK.Gen.GuardsC01` is regenerated from the source on every run of `./check C01`.)
-/
set_option linter.unusedSimpArgs false
namespace LK.Gen.GuardsC01

/-- a row table that exists — even an empty one (truth value 0) — is turned into an item list: every known entity has a row -/
theorem rowItems_present (k : Int) : rowItemsBranch (some k) = 1 := by
  simp [rowItemsBranch, LK.Py.truthy]

/-- only an absent table gives no row -/
theorem rowItems_absent : rowItemsBranch none = 0 := by
  simp [rowItemsBranch, LK.Py.truthy]

end LK.Gen.GuardsC01
