import LK.Proofs.ItemList
/-! C16 — numbers under an alternate vocabulary; copying under a new vocabulary (repaired) keeps alignment and identity. -/
namespace LK.IL
variable {ι : Type} [DecidableEq ι]

/-- **C16 (alternate vocabulary):** with stored identifiers, the numbers reported for a *different* vocabulary
    are the identifiers' positions in that vocabulary (−1 when absent) — never the cached own-vocabulary numbers -/
theorem numbers_alt_spec {φ} (il : IL ι φ) (a : Vocab ι) (i : List ι) (hi : il.ids = some i) (hne : il.vocab ≠ some a) :
    numbersOf il (some a) .negative = .ok (i.map (numberOf a)) := by
  unfold numbersOf
  simp only [hne, if_false, idsOf, hi]
  simp

/-- with `missing = error`, an identifier outside the vocabulary is reported, not mapped somewhere -/
theorem numbers_alt_error {φ} (il : IL ι φ) (a : Vocab ι) (i : List ι) (hi : il.ids = some i) (hne : il.vocab ≠ some a)
    (x : ι) (hx : x ∈ i) (hxa : x ∉ a) : numbersOf il (some a) .error = .error .key := by
  unfold numbersOf
  simp only [hne, if_false, idsOf, hi]
  have hneg : numberOf a x < 0 := by
    unfold numberOf
    have : ¬ a.idxOf x < a.length := by
      intro h; exact hxa (List.idxOf_lt_length_iff.mp h)
    simp [this]
  have hany : (i.map (numberOf a)).any (· < 0) = true := by
    simp only [List.any_map, List.any_eq_true]
    exact ⟨x, hx, by simpa using hneg⟩
  simp [hany]

/-- **C16 (copy under a new vocabulary, repaired):** alignment is preserved, the identifiers are the same,
    and the numbers are recomputed for the new vocabulary -/
theorem withVocab_repaired_spec {φ} (src : IL ι φ) (v2 : Vocab ι) (i : List ι) (out : IL ι φ) (v : Vocab ι)
    (hal : Aligned src) (hids : idsOf src = .ok i) (hv0 : src.vocab = some v) (hne : src.vocab ≠ some v2)
    (h : withVocab .repaired src v2 = .ok out) :
    Aligned out ∧ idsOf out = .ok i ∧ numbersOf out none .negative = .ok (i.map (numberOf v2)) := by
  unfold withVocab at h
  simp only [hne, if_false] at h
  cases hn0 : src.nums with
  | none =>
    -- no numbers: the identifiers are stored, only the vocabulary changes
    simp only [hv0, hn0, Except.ok.injEq] at h
    subst h
    obtain ⟨h1, h2, h3, h4⟩ := hal
    cases hs : src.ids with
    | none => simp [idsOf, hs, hv0, hn0] at hids
    | some i' =>
      have : i' = i := by simpa [idsOf, hs] using hids
      subst this
      refine ⟨⟨?_, ?_, h3, ?_⟩, ?_, ?_⟩
      · intro i'' hi''; simp only [hs, Option.some.injEq] at hi''; subst hi''; exact h1 i' hs
      · intro n hn; simp [hn0] at hn
      · intro v' i'' n _ _ hn; simp [hn0] at hn
      · simp [idsOf, hs]
      · simp [numbersOf, hn0, hs]
  | some n0 =>
  simp only [hv0, hn0, hids, Except.ok.injEq] at h
  subst h
  obtain ⟨h1, h2, h3, h4⟩ := hal
  have hlen : i.length = src.len := by
    unfold idsOf at hids
    cases hs : src.ids with
    | some i' => simp [hs] at hids; subst hids; exact h1 i' hs
    | none =>
      simp only [hs] at hids
      cases hv : src.vocab with
      | none => simp [hv] at hids
      | some v =>
        cases hn : src.nums with
        | none => simp [hv, hn] at hids
        | some n =>
          simp only [hv, hn] at hids
          split at hids
          · simp at hids
          · rename_i hbad
            simp only [Except.ok.injEq] at hids
            subst hids
            have hnl := h2 n hn
            rw [← hnl]
            -- every number is in range, so nothing is dropped by `filterMap`
            have hall : ∀ k ∈ n, ∃ y, v[k.toNat]? = some y := by
              intro k hk
              have : ¬ (k < 0 ∨ (v.length : Int) ≤ k) := by
                intro hc
                apply hbad
                simp only [List.any_eq_true, decide_eq_true_eq]
                exact ⟨k, hk, hc⟩
              have hk2 : k.toNat < v.length := by omega
              exact ⟨v[k.toNat], by simp [hk2]⟩
            clear hbad hn hnl
            induction n with
            | nil => rfl
            | cons k ks ih =>
              obtain ⟨y, hy⟩ := hall k (by simp)
              simp only [List.filterMap_cons, hy, List.length_cons]
              rw [ih (fun k' hk' => hall k' (by simp [hk']))]
  refine ⟨⟨?_, ?_, h3, ?_⟩, ?_, ?_⟩
  · intro i' hi'; simp only [Option.some.injEq] at hi'; subst hi'; exact hlen
  · intro n hn; simp at hn
  · intro v i' n _ _ hn; simp at hn
  · simp [idsOf]
  · simp [numbersOf]

#print axioms numbers_alt_spec
#print axioms withVocab_repaired_spec
end LK.IL
