import LK.Model.PredictMetrics
import Mathlib.Algebra.Order.Field.Rat
import Mathlib.Tactic.Ring
namespace LK.Pred

theorem sumQ_append (a b : List Q) : sumQ (a ++ b) = sumQ a + sumQ b := by
  induction a with
  | nil => simp [sumQ]
  | cons x xs ih => simp only [sumQ, List.cons_append, List.foldr_cons] at ih ⊢; rw [ih]; ring

theorem both_append (a b : List Pair) : both (a ++ b) = both a ++ both b := by
  simp [both, List.filterMap_append]

theorem listData_append (sq : Bool) (a b : List Pair) :
    listData .repaired sq (a ++ b) = ((listData .repaired sq a).1 + (listData .repaired sq b).1,
      (listData .repaired sq a).2 + (listData .repaired sq b).2) := by
  simp [listData, both_append, sumQ_append]

theorem listData_nil (sq : Bool) : listData .repaired sq [] = (0, 0) := by simp [listData, both, sumQ]

/-- totals over the lists are the totals over the pooled pairs -/
theorem totals_pooled (sq : Bool) (lists : List (List Pair)) :
    (sumQ ((lists.map (listData .repaired sq)).map (·.1)),
      ((lists.map (listData .repaired sq)).map (·.2)).foldr (· + ·) 0) = listData .repaired sq lists.flatten := by
  induction lists with
  | nil => simp [listData_nil, sumQ]
  | cons l ls ih =>
    simp only [List.map_cons, List.flatten_cons, listData_append, List.foldr_cons]
    have h1 := congrArg Prod.fst ih
    have h2 := congrArg Prod.snd ih
    simp only at h1 h2
    rw [← h1, ← h2]
    simp [sumQ]

/-- **C07 (pooling):** the run-level value is the same formula applied to all usable pairs pooled over
    the lists — lists of any lengths, including empty ones anywhere -/
theorem global_is_pooled (sq mae : Bool) (lists : List (List Pair)) :
    globalAgg .repaired mae (lists.map (listData .repaired sq)) = extract (listData .repaired sq lists.flatten) := by
  have h := totals_pooled sq lists
  have h1 := congrArg Prod.fst h
  have h2 := congrArg Prod.snd h
  simp only at h1 h2
  cases mae <;> simp only [globalAgg, extract] <;> rw [h1, h2]

/-- ignored pairs never enter a denominator -/
theorem count_is_usable_pairs (sq : Bool) (pairs : List Pair) :
    (listData .repaired sq pairs).2 = (both pairs).length := rfl

/-- as it stands, an ignored missing score still counts in the per-list denominator … -/
example : extract (listData .asIs true [(some 1, some 2), (some 2, some 2), (none, some 5)]) = some (1/3) := by decide +kernel
example : measureList true [(some 1, some 2), (some 2, some 2), (none, some 5)] = some (1/2) := by decide +kernel
/-- … and MAE's run-level value disappears when the last list is empty -/
example : globalAgg .asIs true [((1 : Q), 2), (0, 0)] = none := by decide
example : globalAgg .repaired true [((1 : Q), 2), (0, 0)] = some (1/2) := by decide +kernel

/-- per-list table = the metric's own value for the projected test list, nothing when there is none -/
theorem measure_row {κ} [DecidableEq κ] (proj : κ → κ) (outputs : List (κ × List Pair)) (tests : List κ)
    (metrics : List Metric) (i : Nat) (k : κ) (l : List Pair) (h : outputs[i]? = some (k, l)) :
    (measure proj outputs tests metrics)[i]? =
      some (k, if tests.contains (proj k) then metrics.map (fun m => m.f l) else metrics.map (fun _ => none)) := by
  simp [measure, List.getElem?_map, h]

theorem no_fill_leaves_absent (metrics : List Metric) (row : List (Option Q)) :
    fillRow .repaired false metrics row = row := rfl

/-- the decomposed per-list value reported in the table is the metric's own `measure_list` value -/
theorem table_value_is_measure_list (sq : Bool) (pairs : List Pair) :
    extract (listData .repaired sq pairs) = measureList sq pairs := rfl

/-- a pair with a missing side contributes neither to the error sum nor to the count -/
theorem ignored_pair_no_effect (sq : Bool) (pairs : List Pair) (p : Pair) (h : p.1 = none ∨ p.2 = none) :
    listData .repaired sq (p :: pairs) = listData .repaired sq pairs := by
  obtain ⟨a, b⟩ := p
  have hb : both ((a, b) :: pairs) = both pairs := by
    rcases h with h | h <;> simp only at h <;> subst h
    · simp [both, List.filterMap_cons]
    · cases a <;> simp [both, List.filterMap_cons]
  simp only [listData, hb]

/-- dispositions: with both set to `ignore` nothing is rejected … -/
theorem align_ignore (pairs : List Pair) : align .ignore .ignore pairs = .ok pairs := by
  simp [align]

/-- … `missing_scores = error` rejects a list with a rated but unscored item … -/
theorem align_error_scores (mt : Disp) (pairs : List Pair) (t : Q) (h : (none, some t) ∈ pairs) :
    align .error mt pairs = .error .missingScores := by
  have : pairs.any (fun pt => pt.1.isNone && pt.2.isSome) = true :=
    List.any_eq_true.mpr ⟨(none, some t), h, by simp⟩
  simp [align, this]

/-- … and `missing_truth = error` rejects a list with a scored but unrated item (when scores are complete or ignored) -/
theorem align_error_truth (pairs : List Pair) (p : Q) (h : (some p, none) ∈ pairs) :
    align .ignore .error pairs = .error .missingTruth := by
  have : pairs.any (fun pt => pt.1.isSome && pt.2.isNone) = true :=
    List.any_eq_true.mpr ⟨(some p, none), h, by simp⟩
  simp [align, this]

/-- an accepted list is passed on unchanged -/
theorem align_ok_same (ms mt : Disp) (pairs out : List Pair) (h : align ms mt pairs = .ok out) : out = pairs := by
  unfold align at h
  split at h
  · cases h
  · split at h
    · cases h
    · injection h with h; exact h.symm

#print axioms global_is_pooled
end LK.Pred
