import LK.Model.PredictMetrics
import Mathlib.Algebra.Order.Field.Rat
import Mathlib.Tactic.Ring
namespace LK.Pred

theorem sumQ_append (a b : List Q) : sumQ (a ++ b) = sumQ a + sumQ b := by
  induction a with
  | nil => simp [sumQ]
  | cons x xs ih => simp only [sumQ, List.cons_append, List.foldr_cons] at ih ⊢; rw [ih]; ring

theorem both_append (a b : List Pair) : both (a ++ b) = both a ++ both b := by
  simp [both, List.filterMap_append]

theorem listData_append (sq : Bool) (a b : List Pair) :
    listData .repaired sq (a ++ b) = ((listData .repaired sq a).1 + (listData .repaired sq b).1,
      (listData .repaired sq a).2 + (listData .repaired sq b).2) := by
  simp [listData, both_append, sumQ_append]

theorem listData_nil (sq : Bool) : listData .repaired sq [] = (0, 0) := by simp [listData, both, sumQ]

/-- totals over the lists are the totals over the pooled pairs -/
theorem totals_pooled (sq : Bool) (lists : List (List Pair)) :
    (sumQ ((lists.map (listData .repaired sq)).map (·.1)),
      ((lists.map (listData .repaired sq)).map (·.2)).foldr (· + ·) 0) = listData .repaired sq lists.flatten := by
  induction lists with
  | nil => simp [listData_nil, sumQ]
  | cons l ls ih =>
    simp only [List.map_cons, List.flatten_cons, listData_append, List.foldr_cons]
    have h1 := congrArg Prod.fst ih
    have h2 := congrArg Prod.snd ih
    simp only at h1 h2
    rw [← h1, ← h2]
    simp [sumQ]

/-- **C07 (pooling):** the run-level value is the same formula applied to all usable pairs pooled over
    the lists — lists of any lengths, including empty ones anywhere -/
theorem global_is_pooled (sq mae : Bool) (lists : List (List Pair)) :
    globalAgg .repaired mae (lists.map (listData .repaired sq)) = extract (listData .repaired sq lists.flatten) := by
  have h := totals_pooled sq lists
  have h1 := congrArg Prod.fst h
  have h2 := congrArg Prod.snd h
  simp only at h1 h2
  cases mae <;> simp only [globalAgg, extract] <;> rw [h1, h2]

/-- ignored pairs never enter a denominator -/
theorem count_is_usable_pairs (sq : Bool) (pairs : List Pair) :
    (listData .repaired sq pairs).2 = (both pairs).length := rfl

/-- as it stands, an ignored missing score still counts in the per-list denominator … -/
example : extract (listData .asIs true [(some 1, some 2), (some 2, some 2), (none, some 5)]) = some (1/3) := by decide +kernel
example : measureList true [(some 1, some 2), (some 2, some 2), (none, some 5)] = some (1/2) := by decide +kernel
/-- … and MAE's run-level value disappears when the last list is empty -/
example : globalAgg .asIs true [((1 : Q), 2), (0, 0)] = none := by decide
example : globalAgg .repaired true [((1 : Q), 2), (0, 0)] = some (1/2) := by decide +kernel

/-- per-list table = the metric's own value for the projected test list, nothing when there is none -/
theorem measure_row {κ} [DecidableEq κ] (proj : κ → κ) (outputs : List (κ × List Pair)) (tests : List κ)
    (metrics : List Metric) (i : Nat) (k : κ) (l : List Pair) (h : outputs[i]? = some (k, l)) :
    (measure proj outputs tests metrics)[i]? =
      some (k, if tests.contains (proj k) then metrics.map (fun m => m.f l) else metrics.map (fun _ => none)) := by
  simp [measure, List.getElem?_map, h]

theorem no_fill_leaves_absent (metrics : List Metric) (row : List (Option Q)) :
    fillRow .repaired false metrics row = row := rfl

#print axioms global_is_pooled
end LK.Pred
