import LK.Generated.GuardsC10
/-!
# C10 — obligations on the translated guards of `ALSBase.__call__` (which embedding is used) and of the bias terms
-/
set_option linter.unusedSimpArgs false
namespace LK.Gen.GuardsC10

/-- the user's number is looked up for every identifier (0 included) whenever the model has a user vocabulary -/
theorem userNum_lookup (u k : Int) (num : LK.Py.V) : alsUserNum (some u) (some k) num = num := by
  simp [alsUserNum, LK.Py.truthy]

theorem userNum_none (users num : LK.Py.V) : alsUserNum none users num = none := by
  simp [alsUserNum, LK.Py.truthy]

/-- a supplied, non-empty history is folded in (branch 0) unless stored embeddings are preferred -/
theorem foldIn_iff (h len : Int) (notPrefer : Bool) :
    alsFoldInBranch (some h) len notPrefer = (if 0 < len ∧ notPrefer = true then 0 else 1) := by
  by_cases hl : 0 < len <;> cases notPrefer <;> simp [alsFoldInBranch, LK.Py.gt, LK.Py.lt, LK.Py.truthy, hl]

theorem no_history_no_foldIn (len : Int) (notPrefer : Bool) : alsFoldInBranch none len notPrefer = 1 := by
  simp [alsFoldInBranch, LK.Py.truthy]

/-- the bias terms: a rated history first, then the trained offset of *any* identified user -/
theorem bias_identifier (u : Int) : biasUserBranch none (some u) = 1 := by
  simp [biasUserBranch, LK.Py.truthy]

theorem bias_history_first (r : Int) (uid : LK.Py.V) : biasUserBranch (some r) uid = 0 := by
  simp [biasUserBranch, LK.Py.truthy]

end LK.Gen.GuardsC10
