import LK.Generated.SaveTraceC15
import LK.Proofs.Persist
/-!
# C15 — the step sequence the real `DataContainer.save` performs is the model's, hence safe at every interruption point
(`LK.Gen.SaveTraceC15` is recorded from the running code on every run of `./check C15`.)
-/
namespace LK.Persist
open LK.Gen.SaveTraceC15

/-- over an existing directory the real save performed exactly the model's sequence: every old entry removed, the directory removed and
    re-created, then the schema, one file per table, the summary -/
theorem observed_is_model : observedOverExisting = saveSteps delOrder newDs := by decide

/-- into a fresh directory: create it, then the same writes -/
theorem observedFresh_is_model : observedFresh = saveFresh newDs := by decide

/-- **C15:** wherever the observed sequence is cut (and whether or not the write in flight is torn), the directory fails to load, loads as
    exactly the new dataset, or — only while nothing the old dataset is loaded from has been removed — as exactly the old one -/
theorem observed_crash_safe (k : Nat) (torn : Bool) :
    load (crash (some (filesOf oldDs)) observedOverExisting k torn) = .fail ∨
    isExactly newDs (load (crash (some (filesOf oldDs)) observedOverExisting k torn)) ∨
    (isExactly oldDs (load (crash (some (filesOf oldDs)) observedOverExisting k torn)) ∧
      ∀ n ∈ delOrder.take k, n ∈ (filesOf oldDs).map (·.1) → n = .summary) := by
  rw [observed_is_model]
  exact save_crash_safe oldDs newDs delOrder k torn

theorem observedFresh_crash_safe (k : Nat) (torn : Bool) :
    load (crash none observedFresh k torn) = .fail ∨ isExactly newDs (load (crash none observedFresh k torn)) := by
  rw [observedFresh_is_model]
  exact save_fresh_crash_safe newDs k torn

end LK.Persist
