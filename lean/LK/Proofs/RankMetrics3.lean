import LK.Proofs.RankMetrics2
/-! C06 — graded nDCG ≤ 1: no arrangement of distinct test items' gains beats the descending one. -/
namespace LK.Metric

/-- descending order -/
def SortedDesc : List Q → Prop
  | [] => True
  | [_] => True
  | x :: y :: r => y ≤ x ∧ SortedDesc (y :: r)

theorem SortedDesc.tail {x : Q} {l : List Q} (h : SortedDesc (x :: l)) : SortedDesc l := by
  cases l with
  | nil => trivial
  | cons y r => exact h.2

theorem insDesc_sorted (x : Q) (l : List Q) (h : SortedDesc l) : SortedDesc (insDesc x l) := by
  induction l with
  | nil => trivial
  | cons y r ih =>
    simp only [insDesc]
    by_cases hyx : y < x
    · simp only [hyx, if_true]; exact ⟨le_of_lt hyx, h⟩
    · simp only [hyx, if_false]
      have hr := ih h.tail
      cases r with
      | nil => simp only [insDesc]; exact ⟨not_lt.mp hyx, trivial⟩
      | cons z r' =>
        simp only [insDesc] at hr ⊢
        by_cases hzx : z < x
        · simp only [hzx, if_true] at hr ⊢; exact ⟨not_lt.mp hyx, hr⟩
        · simp only [hzx, if_false] at hr ⊢; exact ⟨h.1, hr⟩

theorem sortDesc_sorted (l : List Q) : SortedDesc (sortDesc l) := by
  induction l with
  | nil => trivial
  | cons x xs ih => exact insDesc_sorted x _ ih

theorem mem_insDesc (x y : Q) (l : List Q) : y ∈ insDesc x l ↔ y = x ∨ y ∈ l := by
  induction l with
  | nil => simp [insDesc]
  | cons z r ih =>
    simp only [insDesc]
    by_cases hzx : z < x
    · simp [hzx]
    · simp only [hzx, if_false, List.mem_cons, ih]; tauto

theorem mem_sortDesc (y : Q) (l : List Q) : y ∈ sortDesc l ↔ y ∈ l := by
  induction l with
  | nil => simp [sortDesc]
  | cons x xs ih => simp [sortDesc, mem_insDesc, ih]

theorem insDesc_comm (x y : Q) (l : List Q) : insDesc x (insDesc y l) = insDesc y (insDesc x l) := by
  induction l with
  | nil =>
    simp only [insDesc]
    rcases lt_trichotomy x y with h | h | h
    · have h' : ¬ y < x := not_lt.mpr (le_of_lt h)
      simp [h, h', insDesc]
    · subst h; rfl
    · have h' : ¬ x < y := not_lt.mpr (le_of_lt h)
      simp [h, h', insDesc]
  | cons z r ih =>
    simp only [insDesc]
    by_cases hzy : z < y <;> by_cases hzx : z < x
    · simp only [hzy, hzx, if_true, insDesc]
      rcases lt_trichotomy x y with h | h | h
      · have h' : ¬ y < x := not_lt.mpr (le_of_lt h)
        simp [h, h', hzx, hzy]
      · subst h; rfl
      · have h' : ¬ x < y := not_lt.mpr (le_of_lt h)
        simp [h, h', hzx, hzy]
    · have hxy : x < y := lt_of_le_of_lt (not_lt.mp hzx) hzy
      have hyx : ¬ y < x := not_lt.mpr (le_of_lt hxy)
      simp [hzy, hzx, insDesc, hxy, hyx]
    · have hyx : y < x := lt_of_le_of_lt (not_lt.mp hzy) hzx
      have hxy : ¬ x < y := not_lt.mpr (le_of_lt hyx)
      simp [hzy, hzx, insDesc, hxy, hyx]
    · simp [hzy, hzx, insDesc, ih]

/-- sorting does not depend on where an element sat -/
theorem sortDesc_middle (a b : List Q) (x : Q) : sortDesc (a ++ x :: b) = insDesc x (sortDesc (a ++ b)) := by
  induction a with
  | nil => rfl
  | cons y a ih => simp only [List.cons_append, sortDesc, ih, insDesc_comm]

/-! ### the exchange step -/

theorem key_step (w : Nat → Q) (hanti : ∀ a b, a ≤ b → w b ≤ w a) (hw : ∀ p, 0 ≤ w p)
    (x : Q) (h : List Q) (hs : SortedDesc h) (hx : 0 ≤ x) (s n : Nat) :
    w s * x + wsumFrom w (s + 1) (h.take n) ≤ wsumFrom w s ((insDesc x h).take (n + 1)) := by
  induction h generalizing s n with
  | nil => simp [insDesc, wsumFrom]
  | cons y r ih =>
    simp only [insDesc]
    by_cases hyx : y < x
    · simp [hyx, wsumFrom]
    · simp only [hyx, if_false, List.take_succ_cons, wsumFrom]
      have hxy : x ≤ y := not_lt.mp hyx
      cases n with
      | zero =>
        simp only [List.take_zero, wsumFrom, add_zero]
        have := hw s
        nlinarith
      | succ n =>
        simp only [List.take_succ_cons, wsumFrom]
        have h1 := ih hs.tail (s + 1) n
        have h2 := hanti s (s + 1) (Nat.le_succ s)
        have : 0 ≤ (w s - w (s + 1)) * (y - x) := mul_nonneg (by linarith) (by linarith)
        nlinarith

/-- a gains vector whose non-zero entries are drawn, without reuse, from the multiset that `h` sorts -/
inductive Dom : List Q → List Q → Prop
  | nil (h : List Q) : Dom [] h
  | zero {g h : List Q} : Dom g h → Dom (0 :: g) h
  | pick {g h : List Q} (x : Q) : Dom g h → SortedDesc h → Dom (x :: g) (insDesc x h)

theorem take_shift_le (w : Nat → Q) (hanti : ∀ a b, a ≤ b → w b ≤ w a) (h : List Q) (hnn : ∀ y ∈ h, 0 ≤ y) (s : Nat) :
    wsumFrom w (s + 1) h ≤ wsumFrom w s h := by
  induction h generalizing s with
  | nil => simp [wsumFrom]
  | cons y r ih =>
    simp only [wsumFrom]
    have h1 := ih (fun z hz => hnn z (by simp [hz])) (s + 1)
    have h2 := hanti s (s + 1) (Nat.le_succ s)
    have h3 := hnn y (by simp)
    nlinarith

theorem take_extend_le (w : Nat → Q) (hw : ∀ p, 0 ≤ w p) (h : List Q) (hnn : ∀ y ∈ h, 0 ≤ y) (s m n : Nat) (hmn : m ≤ n) :
    wsumFrom w s (h.take m) ≤ wsumFrom w s (h.take n) := by
  induction h generalizing s m n with
  | nil => simp
  | cons y r ih =>
    cases m with
    | zero =>
      simp only [List.take_zero, wsumFrom]
      exact wsumFrom_nonneg w s _ hw (fun z hz => hnn z (List.mem_of_mem_take hz))
    | succ m =>
      cases n with
      | zero => omega
      | succ n =>
        simp only [List.take_succ_cons, wsumFrom]
        have := ih (fun z hz => hnn z (by simp [hz])) (s + 1) m n (by omega)
        linarith

/-- **rearrangement, in the form the metric needs** -/
theorem dom_le_sorted (w : Nat → Q) (hanti : ∀ a b, a ≤ b → w b ≤ w a) (hw : ∀ p, 0 ≤ w p)
    (g h : List Q) (hd : Dom g h) (hs : SortedDesc h) (hnn : ∀ y ∈ h, 0 ≤ y) (s : Nat) :
    wsumFrom w s g ≤ wsumFrom w s (h.take g.length) := by
  induction hd generalizing s with
  | nil h => simp [wsumFrom]
  | @zero g h _ ih =>
    simp only [wsumFrom, mul_zero, zero_add, List.length_cons]
    have h1 := ih hs hnn (s + 1)
    have h2 := take_shift_le w hanti (h.take g.length) (fun y hy => hnn y (List.mem_of_mem_take hy)) s
    have h3 := take_extend_le w hw h hnn s g.length (g.length + 1) (Nat.le_succ _)
    linarith
  | @pick g h x _ hsh ih =>
    simp only [wsumFrom, List.length_cons]
    have hx : 0 ≤ x := hnn x ((mem_insDesc x x h).mpr (Or.inl rfl))
    have hnn' : ∀ y ∈ h, 0 ≤ y := fun y hy => hnn y ((mem_insDesc x y h).mpr (Or.inr hy))
    have h1 := ih hsh hnn' (s + 1)
    have h2 := key_step w hanti hw x h hsh hx s g.length
    linarith

end LK.Metric

namespace LK.Metric

/-- graded gain of an item (0 when it is not a test item) -/
def gf (T : List (Nat × Q)) (i : Nat) : Q := match gainOf T i with | some g => g | none => 0

theorem gainsOf_graded (k : Option Nat) (L : List Nat) (T : List (Nat × Q)) :
    gainsOf false k L T = (truncate k L).map (gf T) := by
  unfold gainsOf gf
  apply List.map_congr_left
  intro i _
  cases gainOf T i <;> simp

theorem gainOf_remove (a b : List (Nat × Q)) (i j : Nat) (x : Q) (hij : j ≠ i) :
    gainOf (a ++ (i, x) :: b) j = gainOf (a ++ b) j := by
  unfold gainOf
  congr 1
  induction a with
  | nil =>
    simp only [List.nil_append, List.find?_cons]
    have : ((i, x).1 == j) = false := by simpa using fun h => hij h.symm
    rw [this]
  | cons y a ih =>
    simp only [List.cons_append, List.find?_cons]
    cases (y.1 == j) <;> simp [ih]

theorem gains_dom (l : List Nat) (hl : l.Nodup) (T : List (Nat × Q)) :
    Dom (l.map (gf T)) (sortDesc (T.map (·.2))) := by
  induction l generalizing T with
  | nil => exact Dom.nil _
  | cons i l ih =>
    have hl' : l.Nodup := (List.nodup_cons.mp hl).2
    have hi : i ∉ l := (List.nodup_cons.mp hl).1
    simp only [List.map_cons]
    cases hg : gainOf T i with
    | none =>
      have : gf T i = 0 := by simp [gf, hg]
      rw [this]
      exact Dom.zero (ih hl' T)
    | some x =>
      have hgf : gf T i = x := by simp [gf, hg]
      rw [hgf]
      -- split `T` at the entry that supplied the gain
      simp only [gainOf, Option.map_eq_some_iff] at hg
      obtain ⟨e, he, hex⟩ := hg
      obtain ⟨hpe, a, b, hT, _⟩ := List.find?_eq_some_iff_append.mp he
      have hei : e.1 = i := by simpa using hpe
      have hee : e = (i, x) := by cases e; simp_all
      subst hT
      rw [hee]
      have hmap : (a ++ (i, x) :: b).map (·.2) = a.map (·.2) ++ x :: b.map (·.2) := by simp
      rw [hmap, sortDesc_middle]
      have hrest : l.map (gf (a ++ (i, x) :: b)) = l.map (gf (a ++ b)) := by
        apply List.map_congr_left
        intro j hj
        have hji : j ≠ i := fun h => hi (h ▸ hj)
        simp only [gf, gainOf_remove a b i j x hji]
      rw [hrest]
      have := ih hl' (a ++ b)
      rw [List.map_append] at this
      exact Dom.pick x this (sortDesc_sorted _)

theorem ratio_bounds (real ideal v : Q) (h : (if ideal = 0 then none else some (real / ideal)) = some v)
    (hnn : 0 ≤ real) (hle : real ≤ ideal) : 0 ≤ v ∧ v ≤ 1 := by
  by_cases hz : ideal = 0
  · rw [if_pos hz] at h; simp at h
  · rw [if_neg hz] at h
    simp only [Option.some.injEq] at h
    subst h
    have hpos : 0 < ideal := lt_of_le_of_ne (le_trans hnn hle) (Ne.symm hz)
    exact ⟨div_nonneg hnn (le_of_lt hpos), by rw [div_le_one hpos]; exact hle⟩

/-- **C06 (graded nDCG ∈ [0, 1])** for non-negative gains, a non-decreasing discount, any cutoff -/
theorem ndcg_graded_bounds (k : Option Nat) (disc : Nat → Q) (hmono : ∀ a b, a ≤ b → disc a ≤ disc b)
    (L : List Nat) (T : List (Nat × Q)) (hL : L.Nodup) (hT : ∀ e ∈ T, 0 ≤ e.2) (v : Q)
    (h : ndcg k disc false L T = some v) : 0 ≤ v ∧ v ≤ 1 := by
  have hanti := dweight_antitone disc hmono
  have hnn := dweight_nonneg disc
  have hgs_nn : ∀ y ∈ sortDesc (T.map (·.2)), 0 ≤ y := by
    intro y hy
    obtain ⟨e, he, rfl⟩ := List.mem_map.mp ((mem_sortDesc y _).mp hy)
    exact hT e he
  have hdom := gains_dom (truncate k L) (hL.sublist (truncate_sublist k L)) T
  have hle := dom_le_sorted (dweight disc) hanti hnn _ _ hdom (sortDesc_sorted _) hgs_nn 0
  rw [List.length_map] at hle
  have hreal_nn : 0 ≤ arrayDcg disc (gainsOf false k L T) := by
    rw [gainsOf_graded]
    apply wsumFrom_nonneg _ _ _ hnn
    intro y hy
    obtain ⟨i, _, rfl⟩ := List.mem_map.mp hy
    unfold gf
    cases hg : gainOf T i with
    | none => simp
    | some g =>
      simp only [gainOf, Option.map_eq_some_iff] at hg
      obtain ⟨e, he, rfl⟩ := hg
      exact hT e (List.mem_of_find?_eq_some he)
  -- the ideal DCG dominates the bound from the rearrangement lemma
  have hideal : wsumFrom (dweight disc) 0 ((sortDesc (T.map (·.2))).take (truncate k L).length)
      ≤ arrayDcg disc (match k with | some k => (sortDesc (T.map (·.2))).take k | none => sortDesc (T.map (·.2))) := by
    unfold arrayDcg
    cases k with
    | none =>
      have := take_extend_le (dweight disc) hnn _ hgs_nn 0 (truncate none L).length
        ((sortDesc (T.map (·.2))).length ⊔ (truncate none L).length) (Nat.le_max_right _ _)
      rw [List.take_of_length_le (Nat.le_max_left _ _)] at this
      exact this
    | some k =>
      exact take_extend_le (dweight disc) hnn _ hgs_nn 0 _ k (truncate_length_le k L)
  rw [gainsOf_graded] at hreal_nn
  have hchain := le_trans hle hideal
  cases k with
  | none =>
    simp only [ndcg, Bool.false_eq_true, if_false, qdiv, gainsOf_graded] at h
    exact ratio_bounds _ _ v h hreal_nn hchain
  | some k =>
    simp only [ndcg, Bool.false_eq_true, if_false, qdiv, gainsOf_graded] at h
    exact ratio_bounds _ _ v h hreal_nn hchain

#print axioms ndcg_graded_bounds
end LK.Metric

namespace LK.Metric
/-- **C06 (ideal ⇒ 1, graded):** a ranking whose evaluated gains are the descending test gains scores 1 -/
theorem ndcg_graded_ideal (k : Option Nat) (disc : Nat → Q) (L : List Nat) (T : List (Nat × Q))
    (hI : gainsOf false k L T = (match k with | some k => (sortDesc (T.map (·.2))).take k | none => sortDesc (T.map (·.2))))
    (v : Q) (h : ndcg k disc false L T = some v) : v = 1 := by
  cases k with
  | none =>
    simp only [ndcg, Bool.false_eq_true, if_false, qdiv] at h hI
    rw [hI] at h
    by_cases hz : arrayDcg disc (sortDesc (T.map (·.2))) = 0
    · rw [if_pos hz] at h; simp at h
    · rw [if_neg hz] at h; simp only [Option.some.injEq] at h; rw [← h]; exact div_self hz
  | some k =>
    simp only [ndcg, Bool.false_eq_true, if_false, qdiv] at h hI
    rw [hI] at h
    by_cases hz : arrayDcg disc ((sortDesc (T.map (·.2))).take k) = 0
    · rw [if_pos hz] at h; simp at h
    · rw [if_neg hz] at h; simp only [Option.some.injEq] at h; rw [← h]; exact div_self hz

/-- non-vacuity: a graded example where the ideal order scores 1 and another order strictly less -/
example : ndcg (some 2) (fun r => (r : Q)) false [7, 8, 9] [(8, 1), (7, 3), (5, 2)] = some (7 / 8) := by decide +kernel
example : ndcg (some 2) (fun r => (r : Q)) false [7, 5, 9] [(8, 1), (7, 3), (5, 2)] = some 1 := by decide +kernel
#print axioms ndcg_graded_ideal
end LK.Metric
