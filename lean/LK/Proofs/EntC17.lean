import LK.Generated.EntC17
import LK.Proofs.Dataset
/-!
# C17 / C01 — the identifier bookkeeping of `add_entities` as translated from the code is the model's `addEntities`, and the index is the
table: an entity's number is its position in the table, before and after more entities are added
-/
namespace LK.Gen.EntC17
open LK.DS LK.ArrayOps

variable {ι : Type} [DecidableEq ι]

theorem indexMask_map_filter (xs : List ι) (q : ι → Bool) : indexMask xs (xs.map q) = xs.filter q := by
  induction xs with
  | nil => simp [indexMask]
  | cons x xs ih => cases h : q x <;> simp [indexMask, h, ih]

/-- **the translated bookkeeping is the model's `addEntities`** (about which the prefix / no-duplicates / completeness theorems are stated),
    and the index it leaves is the table itself -/
theorem addEntitiesT_eq (le : ι → ι → Bool) (table : Option (List ι)) (source : List ι) (dupErr : Bool) :
    addEntitiesT le table source dupErr
      = (addEntities le (table.getD []) source (if dupErr then .error else .update)).map (fun v => (v, v)) := by
  unfold addEntitiesT addEntities
  by_cases h1 : (uniqueSorted le source).length < source.length
  · simp [h1, Except.map]
  · simp only [h1, if_false]
    cases table with
    | none =>
      have hf : (uniqueSorted le source).filter (fun x => decide (x ∉ ([] : List ι))) = uniqueSorted le source := by simp
      simp only [Option.getD_none, hf, Nat.lt_irrefl, false_and, if_false, List.nil_append, Except.map]
    | some col =>
      have hf : indexMask (uniqueSorted le source) (((uniqueSorted le source).map (fun x => col.contains x)).map (!·))
          = (uniqueSorted le source).filter (fun x => decide (x ∉ col)) := by
        rw [List.map_map, indexMask_map_filter]; congr 1; funext x; simp
      simp only [Option.getD_some, hf]
      generalize (uniqueSorted le source).filter (fun x => decide (x ∉ col)) = F
      cases dupErr
      · simp [Except.map]
      · by_cases h2 : F.length < (uniqueSorted le source).length <;> simp [h2, Except.map]

/-- the index is rebuilt from the table: number ↔ identifier is the table's own positions -/
theorem index_is_table (le : ι → ι → Bool) (table : Option (List ι)) (source : List ι) (dupErr : Bool) (t ix : List ι)
    (h : addEntitiesT le table source dupErr = .ok (t, ix)) : ix = t := by
  rw [addEntitiesT_eq] at h
  cases h2 : addEntities le (table.getD []) source (if dupErr then .error else .update) with
  | error e => simp [h2, Except.map] at h
  | ok v => simp [h2, Except.map] at h; rw [← h.1, ← h.2]

/-- **entities keep their numbers when more are added**: the table before is a prefix of the table (and of the index) after -/
theorem numbers_kept (le : ι → ι → Bool) (tbl : List ι) (source : List ι) (dupErr : Bool) (t ix : List ι)
    (h : addEntitiesT le (some tbl) source dupErr = .ok (t, ix)) : ∃ fresh, t = tbl ++ fresh ∧ ix = tbl ++ fresh := by
  have hix := index_is_table le (some tbl) source dupErr t ix h
  rw [addEntitiesT_eq] at h
  cases h2 : addEntities le tbl source (if dupErr then .error else .update) with
  | error e => simp [h2, Except.map] at h
  | ok v =>
    simp [h2, Except.map] at h
    obtain ⟨fresh, hf⟩ := addEntities_prefix le tbl source _ v h2
    exact ⟨fresh, by rw [← h.1, hf], by rw [hix, ← h.1, hf]⟩

end LK.Gen.EntC17
