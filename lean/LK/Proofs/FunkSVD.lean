import LK.Model.FunkSVD
/-! C10 — FunkSVD bookkeeping: training one feature never touches another feature's column. -/
namespace LK.Funk

theorem getD_setIfInBounds_ne (a : Array Float) (i j : Nat) (x : Float) (h : i ≠ j) :
    (a.setIfInBounds i x).getD j 0.0 = a.getD j 0.0 := by
  simp [Array.getD_eq_getD_getElem?, Array.getElem?_setIfInBounds_ne h]

theorem sgdStep_nf (p : Params) (f : Nat) (trail : Float) (m : Model) (s : Sample) (est : Float) :
    (sgdStep p f trail m s est).nf = m.nf := rfl

/-- cells outside column `f` keep their value through one SGD step -/
theorem sgdStep_other (p : Params) (f : Nat) (trail : Float) (m : Model) (s : Sample) (est : Float)
    (j : Nat) (hj : j % m.nf ≠ f) (hf : f < m.nf) :
    (sgdStep p f trail m s est).umat.getD j 0.0 = m.umat.getD j 0.0 ∧
    (sgdStep p f trail m s est).imat.getD j 0.0 = m.imat.getD j 0.0 := by
  have hmod : ∀ r : Nat, (r * m.nf + f) % m.nf = f := by
    intro r; rw [Nat.add_comm, Nat.add_mul_mod_self_right]; exact Nat.mod_eq_of_lt hf
  have hu : s.user * m.nf + f ≠ j := fun h => hj (h ▸ hmod s.user)
  have hi : s.item * m.nf + f ≠ j := fun h => hj (h ▸ hmod s.item)
  unfold sgdStep
  exact ⟨getD_setIfInBounds_ne _ _ _ _ hu, getD_setIfInBounds_ne _ _ _ _ hi⟩

def Same (f : Nat) (m m' : Model) : Prop :=
  m'.nf = m.nf ∧ ∀ j, j % m.nf ≠ f → m'.umat.getD j 0.0 = m.umat.getD j 0.0 ∧ m'.imat.getD j 0.0 = m.imat.getD j 0.0

theorem Same.refl (f : Nat) (m : Model) : Same f m m := ⟨rfl, fun _ _ => ⟨rfl, rfl⟩⟩
theorem Same.trans {f : Nat} {a b c : Model} (h1 : Same f a b) (h2 : Same f b c) : Same f a c := by
  refine ⟨h2.1.trans h1.1, fun j hj => ?_⟩
  have hb := h2.2 j (by rw [h1.1]; exact hj)
  have ha := h1.2 j hj
  exact ⟨hb.1.trans ha.1, hb.2.trans ha.2⟩

theorem featureLoop_same (p : Params) (f : Nat) (trail : Float) (samples : Array Sample) (est : Array Float)
    (m : Model) (hf : f < m.nf) : Same f m (featureLoop p f trail samples est m) := by
  unfold featureLoop
  generalize List.range samples.size = ks
  induction ks generalizing m with
  | nil => exact Same.refl f m
  | cons k ks ih =>
    simp only [List.foldl_cons]
    cases hs : samples[k]? with
    | none => simpa [hs] using ih m hf
    | some s =>
      simp only [hs]
      have h1 : Same f m (sgdStep p f trail m s (est.getD k 0.0)) :=
        ⟨rfl, fun j hj => sgdStep_other p f trail m s _ j hj hf⟩
      exact h1.trans (ih _ (by rw [sgdStep_nf]; exact hf))

theorem featureLoop_nf (p : Params) (f : Nat) (trail : Float) (samples : Array Sample) (est : Array Float)
    (m : Model) (hf : f < m.nf) : (featureLoop p f trail samples est m).nf = m.nf :=
  (featureLoop_same p f trail samples est m hf).1

/-- **C10 (feature-wise training):** all epochs of feature `f` leave every other feature column untouched -/
theorem trainFeature_frozen (p : Params) (f : Nat) (trail : Float) (samples : Array Sample) (est : Array Float)
    (m : Model) (hf : f < m.nf) : Same f m (trainFeature p f trail samples est m) := by
  unfold trainFeature
  generalize List.range p.iters = es
  induction es generalizing m with
  | nil => exact Same.refl f m
  | cons e es ih =>
    simp only [List.foldl_cons]
    have h1 := featureLoop_same p f trail samples est m hf
    exact h1.trans (ih _ (by rw [h1.1]; exact hf))

#print axioms trainFeature_frozen
end LK.Funk
