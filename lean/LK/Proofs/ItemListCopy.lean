import LK.Proofs.ItemList
/-! # C16 — the copy constructor keeps a list consistent (repaired variant); witnesses of the three slips as it stands -/
namespace LK.IL
variable {ι : Type} [DecidableEq ι]

/-- the ranks cache, when present, has one rank per item -/
def RanksOK {φ} (il : IL ι φ) : Prop := ∀ r, il.ranks = some r → r.length = il.len

theorem cacheRanks_ok {φ} (il : IL ι φ) (h : RanksOK il) : RanksOK (cacheRanks il) := by
  unfold cacheRanks
  split
  · intro r hr
    simp only [Option.some.injEq] at hr
    cases hc : il.ranks with
    | none => simp [hc] at hr; subst hr; simp
    | some r0 => simp [hc] at hr; subst hr; exact h r0 hc
  · exact h

theorem getitem_ranksOK {φ} (il : IL ι φ) (sel : List Nat) : RanksOK (getitem il sel) := by
  intro r hr; simp [getitem] at hr

theorem copyIds_ranksOK {φ} (src out : IL ι φ) (x : List ι) (h : RanksOK src)
    (ho : copyIds .repaired src x = .ok out) : RanksOK out := by
  unfold copyIds at ho
  split at ho
  · injection ho with ho; subst ho
    intro r hr
    simp only [keepRanks] at hr
    by_cases hl : x.length = src.len
    · rw [if_pos hl] at hr; have := h r hr; simp only; omega
    · rw [if_neg hl] at hr; cases hr
  · cases ho

theorem copyNums_ranksOK {φ} (src out : IL ι φ) (y : List Int) (h : RanksOK src)
    (ho : copyNums .repaired src y = .ok out) : RanksOK out := by
  unfold copyNums at ho
  split at ho
  · injection ho with ho; subst ho
    intro r hr
    simp only [keepRanks] at hr
    by_cases hl : y.length = src.len
    · rw [if_pos hl] at hr; exact h r hr
    · rw [if_neg hl] at hr; cases hr
  · cases ho

/-- **C16 (copy with replaced identifiers):** the copy is aligned — identifiers, fields and (absent) numbers all have the new length -/
theorem copyIds_aligned {φ} (vt : Variant) (src out : IL ι φ) (x : List ι) (h : Aligned src)
    (ho : copyIds vt src x = .ok out) : Aligned out ∧ out.ids = some x ∧ out.len = x.length ∧ out.fields = src.fields := by
  unfold copyIds at ho
  split at ho
  · rename_i hf
    injection ho with ho; subst ho
    refine ⟨⟨?_, ?_, ?_, ?_⟩, rfl, rfl, rfl⟩
    · intro i hi; simp only [Option.some.injEq] at hi; subst hi; rfl
    · intro n hn; simp at hn
    · intro nf hnf
      simp only [fieldsFit, List.all_eq_true, beq_iff_eq] at hf
      exact hf nf hnf
    · intro v i n _ _ hn; simp at hn
  · cases ho

/-- **C16 (copy with replaced numbers)** -/
theorem copyNums_aligned {φ} (vt : Variant) (src out : IL ι φ) (y : List Int) (h : Aligned src)
    (ho : copyNums vt src y = .ok out) : Aligned out ∧ out.nums = some y ∧ out.len = src.len ∧ out.fields = src.fields := by
  unfold copyNums at ho
  split at ho
  · rename_i hl
    injection ho with ho; subst ho
    refine ⟨⟨?_, ?_, ?_, ?_⟩, rfl, rfl, rfl⟩
    · intro i hi; simp at hi
    · intro n hn; simp only [Option.some.injEq] at hn; subst hn; exact hl
    · exact h.2.2.1
    · intro v i n _ hi; simp at hi
  · cases ho

/-- **C16 (both supplied, repaired):** what the caller supplied is what the copy holds -/
theorem copyBoth_repaired_keeps {φ} (src out : IL ι φ) (x : List ι) (y : List Int)
    (ho : copyBoth .repaired src x y = .ok out) : out.ids = some x ∧ out.nums = some y ∧ out.len = x.length := by
  unfold copyBoth at ho
  split at ho
  · cases ho
  · split at ho
    · cases ho
    · injection ho with ho; subst ho; exact ⟨rfl, rfl, rfl⟩

/-- dropping / replacing a field touches nothing else -/
theorem dropField_ids {φ} (src : IL ι φ) (name : String) : (dropField src name).ids = src.ids ∧ (dropField src name).nums = src.nums ∧
    (dropField src name).len = src.len ∧ ∀ nf ∈ (dropField src name).fields, nf ∈ src.fields ∧ nf.1 ≠ name := by
  refine ⟨rfl, rfl, rfl, ?_⟩
  intro nf hnf
  simp only [dropField, List.mem_filter] at hnf
  exact ⟨hnf.1, by simpa using hnf.2⟩

/-! witnesses of the constructor's slips as it stands -/
def ex3 : IL Nat Int := { len := 3, ids := some [10, 20, 30], nums := none, vocab := none, fields := [], ordered := true, ranks := some [1, 2, 3] }
/-- stale ranks: a 2-item copy of a 3-item list whose ranks were already computed -/
example : (copyIds .asIs ex3 [10, 20]).toOption.bind (fun il => ranksOf il) = some [1, 2, 3] := by decide
example : (copyIds .repaired ex3 [10, 20]).toOption.bind (fun il => ranksOf il) = some [1, 2] := by decide
/-- identifiers just supplied are deleted when numbers are supplied too -/
example : (copyBoth .asIs ex3 [7, 8] [0, 1]).toOption.map (·.ids) = some none := by decide
/-- identifiers + another vocabulary on a source with cached numbers raises -/
def ex4 : IL Nat Int := { len := 2, ids := some [10, 20], nums := some [0, 1], vocab := some [10, 20], fields := [], ordered := false }
example : (match copyIdsVocab .asIs ex4 [20] [20, 30] with | .error .attribute => true | _ => false) = true := by decide

#print axioms copyIds_aligned
#print axioms copyIds_ranksOK
end LK.IL
