import LK.Generated.RowPtrsC01
import LK.Proofs.ArrowC17
import LK.Proofs.Csr
/-!
# C01 — the row pointers `MatrixRelationshipSet.__init__` computes are the model's `rowPtrs`
(sizes per row scattered at `row + 1`, then a cumulative sum — the same arithmetic as the list-array alignment of C17, whose lemma
`offsets_eq` is reused with the counts rendered as lists of that length)
-/
set_option linter.unusedSimpArgs false
namespace LK.ArrowOps
open LK.Attr LK.Gen.RowPtrsC01

theorem mem_distinct (xs : List Nat) (v : Nat) : v ∈ distinct xs ↔ v ∈ xs := by
  induction xs with
  | nil => simp [distinct]
  | cons x xs ih =>
    simp only [distinct, List.mem_cons, List.mem_filter, ih]
    by_cases h : v = x
    · simp [h]
    · simp [h]

theorem nodup_distinct (xs : List Nat) : (distinct xs).Nodup := by
  induction xs with
  | nil => exact List.nodup_nil
  | cons x xs ih =>
    simp only [distinct, List.nodup_cons, List.mem_filter]
    refine ⟨by simp, ih.sublist List.filter_sublist⟩

/-- the counts as lists of that length, so that `offsets_eq` (stated for list columns) applies -/
def asLists (vc : List (Nat × Nat)) : List (Nat × List Unit) := vc.map (fun p => (p.1, List.replicate p.2 ()))

theorem asLists_keys (vc : List (Nat × Nat)) : (asLists vc).map (·.1) = vc.map (·.1) := by simp [asLists, List.map_map, Function.comp_def]
theorem asLists_lens (vc : List (Nat × Nat)) : valueLengths ((asLists vc).map (·.2)) = vc.map (·.2) := by
  simp [asLists, valueLengths, List.map_map, Function.comp_def]

theorem rowSize_valueCounts (xs : List Nat) (k : Nat) : rowSize (asLists (valueCounts xs)) k = xs.count k := by
  unfold rowSize asLists valueCounts
  simp only [List.map_map, Function.comp_def]
  by_cases hk : k ∈ xs
  · have hm : k ∈ distinct xs := (mem_distinct xs k).mpr hk
    have gen : ∀ (ds : List Nat), k ∈ ds →
        (ds.map (fun v => (v, List.replicate (xs.count v) ()))).find? (fun p => p.1 == k) = some (k, List.replicate (xs.count k) ()) := by
      intro ds
      induction ds with
      | nil => intro h; cases h
      | cons d ds ih =>
        intro hmem
        by_cases hd : d = k
        · subst hd; simp
        · have hk' : k ∈ ds := by
            cases hmem with
            | head => exact absurd rfl hd
            | tail _ h => exact h
          have hne : (d == k) = false := by simpa using hd
          simp only [List.map_cons, List.find?_cons, hne]
          exact ih hk'
    simp [gen (distinct xs) hm]
  · have : ((distinct xs).map (fun v => (v, List.replicate (xs.count v) ()))).find? (fun p => p.1 == k) = none := by
      rw [List.find?_eq_none]
      intro p hp hpk
      obtain ⟨v, hv, rfl⟩ := List.mem_map.mp hp
      have : v = k := by simpa using hpk
      exact hk ((mem_distinct xs v).mp hv |> (this ▸ ·))
    simp [this, List.count_eq_zero_of_not_mem hk]

theorem count_map_fst {β} (L : List (Nat × β)) (k : Nat) : (L.map (·.1)).count k = LK.rowCount L k := by
  unfold LK.rowCount
  induction L with
  | nil => rfl
  | cons a L ih =>
    by_cases hak : a.1 = k
    · have hb : (a.1 == k) = true := by simpa using hak
      simp only [List.map_cons, List.count_cons, List.filter_cons, hb, if_true, List.length_cons, ih]
    · have hb : (a.1 == k) = false := by simpa using hak
      simp only [List.map_cons, List.count_cons, List.filter_cons, hb, ih]
      simp

/-- **C01:** for the row-number column of any record list (row numbers below the row count) the translated computation yields the model's
    row pointers — entry `u` is the number of records in rows below `u` (`rowPtrs_get`), so `[ptr u, ptr (u+1))` is row `u` (`row_slice`) -/
theorem bincount_ptrs {β} (n : Nat) (L : List (Nat × β)) :
    cumsum (0 :: bincount (L.map (·.1)) n) = (List.range (n + 1)).map (fun u => ((List.range u).map (LK.rowCount L)).sum) := by
  have hshift : bincount (L.map (·.1)) n = (List.range' 1 n).map (fun j => match j with | 0 => 0 | j' + 1 => LK.rowCount L j') := by
    unfold bincount
    rw [List.range_eq_range']
    apply List.ext_getElem
    · simp
    · intro k h1 h2
      simp only [List.length_map, List.length_range'] at h1
      simp only [List.getElem_map, List.getElem_range', Nat.zero_add, Nat.one_mul]
      have : 1 + k = k + 1 := by omega
      rw [this]
      exact count_map_fst L k
  rw [hshift, List.range_eq_range', List.range'_succ]
  simp only [cumsum, List.map_cons, cumsumFrom, Nat.zero_add]
  have := cumsumFrom_range' (fun j => match j with | 0 => 0 | j' + 1 => LK.rowCount L j') (fun r => ((List.range r).map (LK.rowCount L)).sum)
    (fun j => by simp only; rw [sum_range_succ]) n 0
  simp only [List.range_zero, List.map_nil, List.sum_nil, Nat.zero_add] at this
  rw [this]
  simp

theorem rowPtrsT_eq {β} (n : Nat) (L : List (Nat × β)) (h : ∀ r ∈ L, r.1 < n) :
    rowPtrsT n (L.map (·.1)) = LK.rowPtrs n L := by
  unfold rowPtrsT LK.rowPtrs
  simp only
  first
    | exact bincount_ptrs n L
    | (
      have hk := asLists_keys (valueCounts (L.map (·.1)))
      have hl := asLists_lens (valueCounts (L.map (·.1)))
      rw [← hk, ← hl]
      rw [offsets_eq n (asLists (valueCounts (L.map (·.1))))
        (by rw [hk]; simp only [valueCounts, List.map_map, Function.comp_def, List.map_id']; exact nodup_distinct _)
        (by rw [hk]; simp only [valueCounts, List.map_map, Function.comp_def, List.map_id']
            intro r hr
            have := (mem_distinct _ r).mp hr
            obtain ⟨x, hx, rfl⟩ := List.mem_map.mp this
            exact h x hx)]
      apply List.map_congr_left
      intro u _
      congr 1
      apply List.map_congr_left
      intro k _
      rw [rowSize_valueCounts]
      exact count_map_fst L k)

end LK.ArrowOps
