import LK.Proofs.GuardsC14
import LK.Proofs.CollC15
import LK.Proofs.EntC17
import LK.PropsAll
import LK.Proofs.AttrVec
import LK.Proofs.Temporal
import LK.Proofs.Dataset3
import LK.Proofs.ConfigDefaults
import LK.Proofs.PopRank
import LK.Proofs.Bias3
import LK.Proofs.ItemListPersist
import LK.Proofs.ItemListArrow
import LK.Proofs.PipelineValidate
import Mathlib.Tactic.NormNum
import Mathlib.Algebra.BigOperators.Fin
/-!
# Non-vacuity: concrete, non-trivial objects meet the hypotheses of the property theorems

An implication whose hypotheses nothing satisfies proves nothing; each block below exhibits an instance
(and, where cheap, evaluates the conclusion on it).
-/

/-! ### C02 — a ranked graph with a shared sub-expression requested twice -/
namespace LK.Pipe
def gProbeRanked : Ranked gProbe where
  rank := fun n => n
  edge := by
    intro n params sel fin h p hp src hs
    match n with
    | 0 => simp [gProbe] at h
    | 1 => simp [gProbe] at h; obtain ⟨rfl, _, _⟩ := h; simp at hp; subst hp; simp at hs; subst hs; decide
    | 2 => simp [gProbe] at h; obtain ⟨rfl, _, _⟩ := h; simp at hp; rcases hp with rfl | rfl <;> (simp at hs; subst hs; decide)
    | (k + 3) => simp [gProbe] at h
example : ∀ n ∈ [2, 1], gProbeRanked.rank n < 5 := by decide
example : (run .repaired gProbe (fun n => if n = 0 then .int 3 else .none) 5 [2, 1]).1
    = denoteAll gProbe (fun n => if n = 0 then .int 3 else .none) 5 [2, 1] :=
  C02_Pipeline_run_eq_denote gProbe gProbeRanked _ 5 [2, 1] (by decide)
end LK.Pipe

/-! ### C06 — a list without repeats, graded truth, monotone discount -/
namespace LK.Metric
example : ([7, 8, 9] : List Nat).Nodup ∧ (∀ e ∈ [((8 : Nat), (1 : Q)), (7, 3), (5, 2)], (0 : Q) ≤ e.2) := by decide
example : ∀ a b : Nat, a ≤ b → ((a : Nat) : Q) ≤ ((b : Nat) : Q) := fun a b h => by exact_mod_cast h
example : recall (some 2) [7, 8, 9] [(8, 1), (7, 3), (5, 2)] = some 1 := by decide +kernel
example : Ideal (some 2) [7, 5, 9] [(8, 1), (7, 3), (5, 2)] := ⟨0, by decide +kernel⟩
example : rbp (some 3) (1 / 2) true [7, 9, 8] [(8, 1), (7, 3)] = some (5 / 6) := by decide +kernel
end LK.Metric

/-! ### C16 — an aligned list with identifiers, numbers, a vocabulary and a field -/
namespace LK.IL
def exAligned : IL String Nat :=
  { len := 2, ids := some ["c", "a"], nums := some [2, 0], vocab := some ["a", "b", "c"], fields := [("score", [5, 7])], ordered := true }
example : Aligned exAligned := by
  refine ⟨?_, ?_, ?_, ?_⟩
  · intro i h; simp [exAligned] at h; subst h; rfl
  · intro n h; simp [exAligned] at h; subst h; rfl
  · intro nf h; simp [exAligned] at h; subst h; rfl
  · intro v i n hv hi hn; simp [exAligned] at hv hi hn; subst hv hi hn; decide
example : idsOf exAligned = .ok ["c", "a"] ∧ exAligned.vocab ≠ some ["c", "b", "z"] := by decide
example : (withVocab .repaired exAligned ["c", "b", "z"]).toOption.map (fun o => numbersOf o none .negative) = some (.ok [0, -1]) := by decide
end LK.IL

/-! ### C17 — entities supplied out of table order -/
namespace LK.Attr
example : (([(2, "v2"), (0, "v0")] : List (Nat × String)).map (·.1)).Nodup := by decide
example : addScalar .repaired 3 [(2, "v2"), (0, "v0")] = [some "v0", none, some "v2"] := by decide
example : addScalar .asIs 3 [(2, "v2"), (0, "v0")] = [some "v2", none, some "v0"] := by decide     -- the defect
end LK.Attr

/-! ### C05 — a genuine permutation, several folds -/
namespace LK.Split
example : ([3, 0, 4, 1, 2] : List Nat).Perm (List.range 5) := by decide
example : arraySplit [3, 0, 4, 1, 2] 2 = [[3, 0, 4], [1, 2]] := by decide
example : lastN .repaired [50, 19, 22, 29] 2 = [3, 0] := by decide
end LK.Split

/-! ### C01 — a builder with late-added entities and a user without interactions -/
namespace LK.DS
example : addEntities (fun a b => decide (a ≤ b)) [5, 9] [7, 9, 3] .update = .ok [5, 9, 3, 7] := by decide
example : (addEntities (fun a b => decide (a ≤ b)) ([] : List Nat) [7, 9, 3] .error) = .ok [3, 7, 9] := by decide
def exB : Builder Nat Nat := { users := [10, 11, 12], items := [1, 2], recs := [⟨2, 1, 50⟩, ⟨0, 0, 30⟩, ⟨2, 0, 40⟩] }
example : (∀ r ∈ exB.recs, r.u < exB.users.length) ∧ (∀ r ∈ exB.recs, r.u ≠ 1) := by decide
example : rowPtrs exB = [0, 1, 1, 3] ∧ (rowOf exB 2).map (·.a) = [40, 50] ∧ rowOf exB 1 = [] := by decide
end LK.DS

/-! ### C14 / C15 / C13 — well-formed worlds, directories and configurations exist -/
namespace LK.Heap
example : observe (runOps true w0 [.modify 0, .connect 1 "scorer" "items" "items", .build 1]) 0 = observe w0 0 := by decide
end LK.Heap

/-! ### C09 — unit vectors with a qualifying pair -/
namespace LK.KNN
example : ((1 : Nat), (4 / 5 : Q)) ∈ simRow [[1, 0], [4 / 5, 3 / 5], [0, 1]] (1 / 2) 0 := by decide +kernel
example : simRowTrunc [[1, 0], [4 / 5, 3 / 5], [3 / 5, 4 / 5]] (1 / 10) (some 1) 0 = [(1, 4 / 5)] := by decide +kernel
end LK.KNN

/-! ### C19 / C20 / C11 -/
namespace LK.Stoch
example : linearWeights [1, 3, 2] = [0, 2 / 3, 1 / 3] := by decide +kernel
example : keys [-1, -1 / 2] [1, 3] (1 / 1000) = [-1, -1 / 6] ∧ effN none (some 5) 2 = 2 := by decide +kernel
end LK.Stoch
namespace LK.Gen.Chunking
example : chunkCreate 250000 = (250000, 250, 1000) ∧ chunkCreate 60 = (60, 60, 1) ∧ (chunkCreate 10000000).2.1 = 4000 := by decide
end LK.Gen.Chunking

/-! ### C10 — a concrete solution of the normal equations (two observations, one feature, ridge 1) -/
namespace LK.NormalEq
open Matrix
example : NormalEq (Matrix.of (fun (i : Fin 2) (_ : Fin 1) => if i = 0 then (1 : ℚ) else 2)) (fun i => if i = 0 then 3 else 9) 1 (fun _ => 7 / 2) := by
  unfold NormalEq
  funext j
  have hj : j = 0 := Subsingleton.elim _ _
  subst hj
  simp [Matrix.mulVec, dotProduct, Fin.sum_univ_succ, Matrix.add_apply, Matrix.mul_apply, Matrix.transpose_apply, Matrix.one_apply_eq]
  norm_num
end LK.NormalEq

/-! ### C13 — a well-formed configuration with two inputs, a wired component and aliases -/
namespace LK.Cfg
def exCfg : Cfg :=
  { name := some "p", version := some "1", inputs := [{ name := "q", types := some ["ItemList", "int"] }, { name := "n", types := none }],
    components := [("scorer", { code := "m:S", config := some "{}", inputs := [("items", "q"), ("n", "n")] })],
    aliases := [("a", "scorer"), ("b", "scorer")], default := some "scorer", literals := [("l1", "json", "1"), ("l2", "json", "2")] }
example : WFcfg exCfg := by
  refine ⟨by decide, ?_, ?_, by decide⟩
  · intro nc h; simp [exCfg] at h; subst h; decide
  · intro i h ts hts; simp [exCfg] at h; rcases h with rfl | rfl
    · simp at hts; subst hts; decide
    · simp at hts
example : buildCfg .repaired (fromCfg .repaired exCfg) = exCfg := C13_Config_roundtrip exCfg (by
  refine ⟨by decide, ?_, ?_, by decide⟩
  · intro nc h; simp [exCfg] at h; subst h; decide
  · intro i h ts hts; simp [exCfg] at h; rcases h with rfl | rfl
    · simp at hts; subst hts; decide
    · simp at hts)
end LK.Cfg

/-! C02: the builder's `validate` accepts the three-node probe graph (so `validated_run_eq_denote` applies to it) and refuses a two-node cycle -/
namespace LK.Pipe
example : validateOk gProbe 3 = true := by decide
def gCycle : Graph := { node := fun n => if n < 2 then .comp [{ lzy := false, acceptsNone := false, accepts := fun _ => true, src := some (1 - n) }] (fun _ => none) (fun _ _ => .ok .none) else .literal .none }
example : validateOk gCycle 2 = false := by decide
end LK.Pipe

/-! ### instances for the theorems added in the build round -/
namespace LK.Attr
-- C17 dense vectors: a full-coverage, out-of-order supply satisfies the hypotheses of `dense_readback` (distinct rows, all < n)
example : (addDense .repaired 3 [(2, some ["c"]), (0, some ["a"]), (1, some ["b"])]).get 0 = some ["a"] := by decide
example : ([(2, some ["c"]), (0, some ["a"]), (1, some ["b"])].map (·.1) : List Nat).Nodup := by decide
-- … and a partial supply with a null vector
example : (addDense .repaired 3 [(2, some ["c"]), (0, none)]).get 0 = none ∧ (addDense .repaired 3 [(2, some ["c"]), (0, none)]).get 1 = none := by decide
end LK.Attr

namespace LK.Split
-- C05: a UNIX-second cut against a date-time column, west of Greenwich: the repaired conversion is the instant itself
example : conformCutV .repaired (-21600) .naive .unix 1600000000 = 1600000000 := by decide
example : (splitGlobalTime .repaired (-21600) .naive [({ u := 0, i := 0, t := 5, a := () } : IRec Unit), { u := 0, i := 1, t := 9, a := () }]
            [(.unix, 7)] none).map (fun ss => ss.map (fun s => (s.1.length, s.2.length))) = some [(1, 1)] := by decide
end LK.Split

namespace LK.IL
-- C16: a copy with replaced identifiers of another length drops the stale ranks; C15: the list with an unknown identifier can be pickled
example : RanksOK ex3 := by intro r hr; simp [ex3] at hr; subst hr; rfl
example : ∃ out, pickleRT .repaired exUnk = .ok out := pickle_total exUnk [10, 999] (by decide) [10, 20] rfl
example : (arrowRT ex3).toOption.map (fun o => (o.ids, o.ordered, o.len)) = some (some [10, 20, 30], true, 3) := by decide
end LK.IL

namespace LK.Bias
-- C08: counts 3, 1, 2 sorted ascending by the order [1, 2, 0]: the hypotheses of `quantile_strict_mono` hold and the shares are 1/6 < 3/6 < 6/6
example : ([1, 2, 0] : List Nat).Pairwise (fun x y => countOf [3, 1, 2] x ≤ countOf [3, 1, 2] y) := by decide
example : quantile [3, 1, 2] [1, 2, 0] 1 < quantile [3, 1, 2] [1, 2, 0] 2 ∧ quantile [3, 1, 2] [1, 2, 0] 2 < quantile [3, 1, 2] [1, 2, 0] 0 := by decide +kernel
end LK.Bias

namespace LK.Metric
-- C06: MeanPopRank — an unknown item (7) and a never-seen item (2, count 0) count as 0
example : popQuantile [(0, 3), (1, 1), (2, 0)] 7 = 0 ∧ popQuantile [(0, 3), (1, 1), (2, 0)] 2 = 0 := by decide +kernel
example : meanPopRank none (popQuantile [(0, 3), (1, 1), (2, 0)]) [0, 7] = some (1 / 2) := by decide +kernel
end LK.Metric

namespace LK.Cfg
-- C02 / C13: one explicit connection, one parameter taken from the builder's defaults, one left unwired
example : resolve [("y", "lit"), ("q", "zzz")] { name := "c", code := "m:f", config := none, params := ["x", "y", "z"], edges := [("x", "in")] }
          = [("x", "in"), ("y", "lit")] := by decide
end LK.Cfg

namespace LK.DS
-- C01: a time filter keeps exactly the records inside the window
example : ((step (fun (a b : Nat) => decide (a ≤ b)) (fun (t : Int) => some t)
            { users := [1], items := [5, 6], recs := [{ u := 0, i := 0, a := 3 }, { u := 0, i := 1, a := 9 }] } (.filterTime (some 2) (some 9))).1.recs.map (·.i)) = [0] := by decide
end LK.DS

/-! ### the per-run translations (§10.8): concrete instances meeting the hypotheses of their obligations -/
section Translations
open LK.Attr LK.ArrowOps LK.Gen.ArrowC17

/-- C17: two rows supplied out of table order, one of them with a null list, into a table of four rows -/
example : expandAlignT 4 [2, 0] [some [7, 8], (none : Option (List Nat))] = expandAlign 4 (dropNulls ([2, 0].zip [some [7, 8], none])) :=
  expandAlignT_eq 4 [2, 0] [some [7, 8], none] rfl (by decide) (by decide)

example : (expandAlignT 4 [2, 0] [some [7, 8], (none : Option (List Nat))]).get 2 = some [7, 8] := by
  rw [expandAlignT_readback 4 [2, 0] [some [7, 8], none] rfl (by decide) (by decide) 2 (by decide)]; decide

example : LK.Gen.ArrowScalarC17.scalarPlaceT 3 [2, 0] ["b", "a"] = [some "a", none, some "b"] := by
  rw [scalarPlaceT_eq 3 [2, 0] ["b", "a"] rfl (by decide)]; decide

/-- C03: a history with a known item (1), an unknown one (−1) and a repeated one -/
example : LK.Gen.CandC03.unratedCandidatesT 4 (some [1, -1, 1]) = [0, 2, 3] := by
  rw [LK.CandOps.unratedCandidatesT_spec 4 (some [1, -1, 1]) (by intro h hh k hk; cases hh; revert k; decide)]; decide

/-- C06: a cut-off of 2 on a longer list; recall's denominator with more test items than the cut-off -/
example : LK.Gen.GuardsC06.truncate (some 2) true 5 (some 7) (some 9) = some 7 := by decide
example : LK.Gen.GuardsC06.recallDenominator (some 2) 5 = some 2 := by decide

/-- C19: a run-time length of 0 is a length; an oversized one is clamped -/
example : LK.Gen.GuardsC19.stochasticN (some 0) (some 3) 4 = some 0 := by decide
example : LK.Gen.GuardsC19.stochasticN (some 9) (some 3) 4 = some 4 := by decide
example : LK.Gen.GuardsC19.randomN none none 4 = some 4 := by decide

/-- C05: the two latest of four rows; none for n = 0 -/
example : LK.Gen.HoldoutC05.lastNCall [30, 10, 40, 20] 2 = [0, 2] := by decide
example : LK.Gen.HoldoutC05.lastNCall [30, 10, 40, 20] 0 = [] := by decide

/-- C20: one re-draw: the first draw hits the observed pair (0, 1), the second does not -/
example : LK.Gen.NegC20.sampleT { nCols := 3, observed := [(0, 1)], storedCols := [1] } .uniform 1 [0] [[1], [2]]
    = some { cols := [2], warned := false, rest := [] } := by decide

/-- …and with the budget exhausted the observed column is returned with a warning -/
example : LK.Gen.NegC20.sampleT { nCols := 3, observed := [(0, 1)], storedCols := [1] } .uniform 0 [0] [[1]]
    = some { cols := [1], warned := true, rest := [] } := by decide

/-- C09: unit vectors, a stored-neighbour limit of 1 that truncates the row of item 0 (two entries reach the threshold) -/
example : (fun r => r.1.zip r.2) (LK.Gen.SimC09.simRowT 0 [[1, 0], [4 / 5, 3 / 5], [3 / 5, 4 / 5]] [1, 0] 1 (1 / 10) (some 1)) = [(1, 4 / 5)] := by
  decide +kernel
example : ∀ j, j < 3 → LK.KNN.dot ([[1, 0], [4 / 5, 3 / 5], [3 / 5, 4 / 5]].getD 0 []) (([[1, 0], [4 / 5, 3 / 5], [3 / 5, 4 / 5]] : List (List LK.KNN.Q)).getD j []) ≤ 1 := by
  decide +kernel

/-- …and the whole CSR triple of those three items, assembled from blocks of 2 rows: item 0 keeps its best neighbour (1), item 1 keeps
    item 2 (24/25), item 2 keeps item 1 -/
example : LK.Gen.SimC09.simBlocksT [[1, 0], [4 / 5, 3 / 5], [3 / 5, 4 / 5]] (1 / 10) (some 1) 2 (fun _ => 1)
    = ([0, 1, 2, 3], [1, 2, 1], [4 / 5, 24 / 25, 24 / 25]) := by decide +kernel

/-- C09: the user-user candidates — user 0 asks, users 1 and 2 reach the threshold 1/2 (user 1 exactly), user 3 does not -/
example : LK.Gen.SimC09.userNbrsT [[1, 0], [1 / 2, 0], [4 / 5, 3 / 5], [1 / 4, 0]] [1, 0] (some 0) (1 / 2) 4 = ([1, 2], [1 / 2, 4 / 5]) := by
  decide +kernel

/-- C09: one target of the item-item scorer with three stored neighbours: the fast path (limit 3), the slow path (limit 2 keeps the two
    most similar), and no score below the minimum — also when the neighbourhood exceeds the limit -/
example : LK.Gen.SimC09.itemScoreT true 1 3 [1, -1, 2] [1 / 2, 1 / 4, 1 / 4] 3 = some (3 / 4) := by decide +kernel
example : LK.Gen.SimC09.itemScoreT true 1 2 [1, -1, 2] [1 / 2, 1 / 4, 1 / 8] 3 = some (1 / 3) := by decide +kernel
example : LK.Gen.SimC09.itemScoreT false 5 2 [1, 1, 1] [1 / 2, 1 / 4, 1 / 8] 3 = none := by decide +kernel

/-- C17: two entities are added to a table of two — the table keeps its two rows, the new identifiers follow in sorted order, and the
    index is the table -/
example : LK.Gen.EntC17.addEntitiesT (fun (a b : Nat) => decide (a ≤ b)) (some [5, 3]) [9, 1] true = .ok ([5, 3, 1, 9], [5, 3, 1, 9]) := by
  decide +kernel
example : LK.Gen.EntC17.addEntitiesT (fun (a b : Nat) => decide (a ≤ b)) (some [5, 3]) [9, 3] true = .error .dataError := by decide +kernel
example : LK.Gen.EntC17.addEntitiesT (fun (a b : Nat) => decide (a ≤ b)) (some [5, 3]) [9, 3] false = .ok ([5, 3, 9], [5, 3, 9]) := by decide +kernel

/-- C15: five lists written in batches of two come back under their own keys (a duplicate key included) -/
example : LK.Gen.CollC15.loadParquetT (fun (x : Nat) => x) (LK.Gen.CollC15.saveParquetT (fun (x : Nat) => x) [(1, 10), (2, 20), (1, 30), (4, 40), (5, 50)] 2)
    = [(1, some 10), (2, some 20), (1, some 30), (4, some 40), (5, some 50)] := by decide +kernel

/-- C14: a scored list with a tag field; a copy without the scores and one with another tag are derived — the source's cell is as it was -/
example : (LK.ItemListHeap.run true [[("score", 1), ("tag", 2)]] [⟨0, [], ["score"]⟩, ⟨0, [("tag", 7)], []⟩])
    = [[("score", 1), ("tag", 2)], [("tag", 2)], [("score", 1), ("tag", 7)]] := by decide +kernel

end Translations
