"""Translate the linear systems the ALS row solvers build (als/_explicit.py, als/_implicit.py) into Mathlib matrix terms (C10).

A small typed expression translator over torch code.  Types: `mat` (the rows of the other side's embedding matrix that belong to this
row's entries, a parameter `M : Matrix m n K`), `matT`, `sq` (n × n), `vecm` (one value per entry), `vecn`, `scalar`.
  X[idx, :] on the other side's matrix → M          X.T[:, idx] → Mᵀ          X.T → transpose
  A @ B → matrix product / matrix-vector product     A.T * v  (a row-broadcast product) → Aᵀ * diagonal v
  S * c, c * S → scalar multiple of a square matrix  torch.eye(nf, …) → 1          len(items) and `(nui,) = cols.shape` → the entry count
  v + 1.0 → the vector plus one                      A + B
  return solve_cholesky(A, V)  /  x = solve_cholesky(A, y); … return x   → the pair (A, V): what the solver is asked to solve
Shape bookkeeping, logging and the early exit for a row without entries are passed over (noted in the generated header).
"""
import ast, hashlib, os, sys

class Unsupported(Exception): pass
U = ast.unparse

class E:
    def __init__(self, env): self.env = dict(env); self.notes = []
    def ex(self, e):
        """(Lean term, type)"""
        if isinstance(e, ast.Name):
            if e.id in self.env: return self.env[e.id]
            raise Unsupported(f"unknown name `{e.id}`")
        if isinstance(e, ast.Constant) and isinstance(e.value, (int, float)) and float(e.value) == 1.0: return ("(1 : K)", "scalar")
        if isinstance(e, ast.Attribute) and e.attr == "T":
            t, ty = self.ex(e.value)
            if ty == "mat": return (f"{t}ᵀ", "matT")
            if ty == "other": return ("OTHER_T", "otherT")
            raise Unsupported(f"transpose of {ty}: `{U(e)}`")
        if isinstance(e, ast.Subscript):
            b = self.ex(e.value); idx = e.slice.elts if isinstance(e.slice, ast.Tuple) else [e.slice]
            full = lambda s: isinstance(s, ast.Slice) and s.lower is None and s.upper is None
            ent = lambda s: isinstance(s, ast.Name) and self.env.get(s.id, ("", ""))[1] == "entries"
            if b[1] == "other" and len(idx) == 2 and ent(idx[0]) and full(idx[1]): return ("M", "mat")
            if b[1] == "otherT" and len(idx) == 2 and full(idx[0]) and ent(idx[1]): return ("Mᵀ", "matT")
            raise Unsupported(f"indexing `{U(e)}`")
        if isinstance(e, ast.Call):
            f = U(e.func)
            if f == "torch.eye": return ("(1 : Matrix n n K)", "sq")
            if f == "len" and len(e.args) == 1 and isinstance(e.args[0], ast.Name) and self.env.get(e.args[0].id, ("", ""))[1] == "entries": return ("nui", "scalar")
            raise Unsupported(f"call `{U(e)[:60]}`")
        if isinstance(e, ast.BinOp):
            l, r = self.ex(e.left), self.ex(e.right)
            if isinstance(e.op, ast.MatMult):
                if l[1] == "matT" and r[1] == "mat": return (f"({l[0]} * {r[0]})", "sq")
                if l[1] == "sqm" and r[1] == "mat": return (f"({l[0]} * {r[0]})", "sq")
                if l[1] == "matT" and r[1] == "vecm": return (f"({l[0]} *ᵥ {r[0]})", "vecn")
                if l[1] == "otherT" and r[1] == "other": return ("(Oᵀ * O)", "sq")
            if isinstance(e.op, ast.Mult):
                if l[1] == "sq" and r[1] == "scalar": return (f"({r[0]} • {l[0]})", "sq")
                if l[1] == "scalar" and r[1] == "sq": return (f"({l[0]} • {r[0]})", "sq")
                if l[1] == "matT" and r[1] == "vecm": return (f"({l[0]} * diagonal {r[0]})", "sqm")          # (n × m): columns scaled entry by entry
            if isinstance(e.op, ast.Add):
                if l[1] == "sq" and r[1] == "sq": return (f"({l[0]} + {r[0]})", "sq")
                if l[1] == "vecm" and r[1] == "scalar": return (f"(fun i => {l[0]} i + {r[0]})", "vecm")
            raise Unsupported(f"`{U(e)}` : {l[1]} {type(e.op).__name__} {r[1]}")
        raise Unsupported(f"expression `{U(e)[:60]}`")

def _stmts(fn, env, lean_name, params, inner=None):
    """translate the body (or, with `inner`, the body of the for-loop it contains) up to the solver call"""
    e = E(env); lines = []; result = None
    body = fn.body
    if inner:
        loop = next((s for s in body if isinstance(s, ast.For)), None)
        if loop is None: raise Unsupported("no row loop")
        body = loop.body
    solved = {}
    for s in body:
        u = U(s)
        if isinstance(s, ast.Expr): continue          # docstring, logging, progress
        if isinstance(s, ast.Assign) and len(s.targets) == 1:
            t = s.targets[0]
            if isinstance(t, ast.Tuple) and u.endswith(".shape") and len(t.elts) == 1: e.env[t.elts[0].id] = ("nui", "scalar"); continue
            if isinstance(t, ast.Name) and u.endswith(".shape[1]"): continue
            if isinstance(t, ast.Name):
                v = s.value
                if isinstance(v, ast.Call) and U(v.func) == "solve_cholesky" and len(v.args) == 2:
                    a, b = e.ex(v.args[0]), e.ex(v.args[1])
                    if a[1] == "sq" and b[1] == "vecn": solved[t.id] = f"({a[0]}, {b[0]})"; continue
                if inner and t.id in ("row", "cols", "vals"):          # this row's entries and values: parameters
                    continue
                try: term, ty = e.ex(v)
                except Unsupported:
                    if inner and t.id in ("result",): continue
                    raise
                if ty in ("mat", "matT", "other", "otherT"): e.env[t.id] = (term, ty); continue
                lines.append(f"  let {t.id} := {term}"); e.env[t.id] = (t.id, ty); continue
            if inner and isinstance(t, ast.Subscript) and isinstance(s.value, ast.Name) and s.value.id in solved: result = solved[s.value.id]; break
            raise Unsupported(f"line {s.lineno}: {u[:80]}")
        if isinstance(s, ast.AugAssign) and isinstance(s.op, (ast.Mult, ast.Add)) and isinstance(s.target, ast.Name) and s.target.id in e.env:
            l = e.env[s.target.id]; r = e.ex(s.value)
            if isinstance(s.op, ast.Mult) and l[1] == "sq" and r[1] == "scalar": lines.append(f"  let {s.target.id} := {r[0]} • {l[0]}"); e.env[s.target.id] = (s.target.id, "sq"); continue
            if isinstance(s.op, ast.Add) and l[1] == "sq" and r[1] == "sq": lines.append(f"  let {s.target.id} := {l[0]} + {r[0]}"); e.env[s.target.id] = (s.target.id, "sq"); continue
            raise Unsupported(f"line {s.lineno}: {u[:80]}")
        if isinstance(s, ast.If):
            if all(isinstance(x, (ast.Return, ast.Continue)) for x in s.body) and not s.orelse:
                e.notes.append(f"line {s.lineno}: the early exit `{U(s.test)}` (a row without entries) is passed over"); continue
            raise Unsupported(f"line {s.lineno}: if {U(s.test)}")
        if isinstance(s, ast.Return):
            v = s.value
            if isinstance(v, ast.Call) and U(v.func) == "solve_cholesky" and len(v.args) == 2:
                a, b = e.ex(v.args[0]), e.ex(v.args[1])
                if a[1] == "sq" and b[1] == "vecn": result = f"({a[0]}, {b[0]})"; break
            if isinstance(v, ast.Name) and v.id in solved: result = solved[v.id]; break
            if isinstance(v, ast.Name) and e.env.get(v.id, ("", ""))[1] == "sq": result = v.id; break          # a function that returns a matrix
            raise Unsupported(f"return `{U(v)[:60]}`")
        raise Unsupported(f"line {s.lineno}: {u[:80]}")
    if result is None: raise Unsupported("no solver call / return")
    return f"def {lean_name} {params} :=\n" + "\n".join(lines) + ("\n" if lines else "") + f"  {result}\n", e.notes

def _find(mod, name, cls=None):
    scope = mod.body
    if cls: scope = next(c for c in mod.body if isinstance(c, ast.ClassDef) and c.name == cls).body
    f = [x for x in scope if isinstance(x, ast.FunctionDef) and x.name == name]
    if not f: raise Unsupported(f"{name} not found")
    return f[-1]

HDR = "variable {m n : Type} [Fintype m] [Fintype n] [DecidableEq n] [DecidableEq m] {K : Type} [Field K]\n"
def generate(src_root):
    ex_src = open(os.path.join(src_root, "als/_explicit.py")).read(); exm = ast.parse(ex_src)
    im_src = open(os.path.join(src_root, "als/_implicit.py")).read(); imm = ast.parse(im_src)
    P = "(M : Matrix m n K)"
    parts = []; notes = []
    def add(nm, fn, src, env, params, rel, inner=None):
        text, ns = _stmts(fn, env, nm, params, inner)
        parts.append(text); notes.append(f"* `{nm}` ← {rel} {fn.name}, source sha256/64 {hashlib.sha256(ast.get_source_segment(src, fn).encode()).hexdigest()[:16]}" + "".join(f"\n    - {x}" for x in dict.fromkeys(ns)))
    add("explicitRowSystem", _find(exm, "_train_solve_row"), ex_src, {"other": ("O", "other"), "cols": ("cols", "entries"), "vals": ("vals", "vecm"), "regI": ("regI", "sq")},
        f"{P} (vals : m → K) (regI : Matrix n n K) (nui : K) : Matrix n n K × (n → K)", "als/_explicit.py")
    add("explicitFoldInSystem", _find(exm, "_train_bias_row_cholesky"), ex_src, {"other": ("O", "other"), "items": ("items", "entries"), "ratings": ("ratings", "vecm"), "reg": ("reg", "scalar")},
        f"{P} (ratings : m → K) (reg : K) (nui : K) : Matrix n n K × (n → K)", "als/_explicit.py")
    add("implicitFoldInSystem", _find(imm, "_train_new_row", "ImplicitMFScorer"), im_src, {"i_embeds": ("O", "other"), "items": ("items", "entries"), "ratings": ("ratings", "vecm"), "OtOr": ("OtOr", "sq")},
        f"{P} (ratings : m → K) (OtOr : Matrix n n K) : Matrix n n K × (n → K)", "als/_implicit.py")
    fn = _find(imm, "_train_implicit_cholesky_rows")
    class CtxRight(ast.NodeTransformer):          # `ctx.right` is the other side's matrix
        def visit_Attribute(self, node):
            self.generic_visit(node)
            if isinstance(node.value, ast.Name) and node.value.id == "ctx" and node.attr == "right": return ast.copy_location(ast.Name(id="ctx_right", ctx=ast.Load()), node)
            return node
    fn2 = ast.fix_missing_locations(CtxRight().visit(ast.parse(ast.get_source_segment(im_src, fn)).body[0]))
    text, ns = _stmts(fn2, {"ctx_right": ("O", "other"), "cols": ("cols", "entries"), "vals": ("vals", "vecm"), "OtOr": ("OtOr", "sq")}, "implicitRowSystem",
                      f"{P} (vals : m → K) (OtOr : Matrix n n K) : Matrix n n K × (n → K)", inner=True)
    parts.append(text); notes.append(f"* `implicitRowSystem` ← als/_implicit.py _train_implicit_cholesky_rows (loop body), source sha256/64 {hashlib.sha256(ast.get_source_segment(im_src, fn).encode()).hexdigest()[:16]}" + "".join(f"\n    - {x}" for x in dict.fromkeys(ns)))
    add("implicitOtor", _find(imm, "_implicit_otor"), im_src, {"other": ("O", "other"), "reg": ("reg", "scalar")}, "{o : Type} [Fintype o] (O : Matrix o n K) (reg : K) : Matrix n n K", "als/_implicit.py")
    return ("import Mathlib.Data.Matrix.Mul\nimport Mathlib.Data.Matrix.Diagonal\n/-! GENERATED by translate/py2lean_als.py on every run of `./check C10`; do not edit.\n"
            "`M` holds the rows of the other side's embedding matrix for this row's entries; each definition is the system handed to the Cholesky solver.\n"
            + "\n".join(notes) + "\n-/\nset_option linter.unusedVariables false\nnamespace LK.Gen.AlsC10\nopen Matrix\n" + HDR + "\n" + "\n".join(parts) + "\nend LK.Gen.AlsC10\n")

if __name__ == "__main__":
    print(generate(sys.argv[1] if len(sys.argv) > 1 else "/repo/src/lenskit"))
