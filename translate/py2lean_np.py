"""Translate the straight-line NumPy code of `BiasModel.learn` into Lean over the array combinators of `LK/Model/NpOps.lean` (C08).

Recognised statements (the code's own variable names are kept; `if "item" in entities:` / `if "user" in entities:` bodies are
inlined — the translation is of the default configuration, both entity kinds — and logging is passed over):
  X = float(np.mean(A))                          → npMean A
  X = A - s            (s a scalar variable)      → npSubScalar A s
  X = np.full(n, c) | np.zeros(n[, dtype=…])      → npFull n c | npZeros n
  np.add.at(X, idx, 1) | np.add.at(X, idx, V)     → npAddAtScalar X idx 1 | npAddAt X idx V
  np.divide(A, B, out=X, where=B > 0)             → npDivideWhere A B X
  X -= Y[idx]                                     → npSub X (npGather Y idx)
  model = cls(damping, g) ; model.item_biases = V ; model.user_biases = V ; return model   → the result triple
Atoms: `ratings.data`, `ratings.row`, `ratings.col`, `nrows`, `ncols`, `entity_damping(damping, 'item' | 'user')`.
Anything else raises `Unsupported`.
"""
import ast, hashlib, os, sys

class Unsupported(Exception): pass

ATOMS = {"ratings.data": "data", "ratings.row": "row", "ratings.col": "col", "nrows": "nrows", "ncols": "ncols",
         "entity_damping(damping, 'item')": "dampI", "entity_damping(damping, 'user')": "dampU"}

def _only_logging(stmts):
    return all(isinstance(s, ast.Expr) and isinstance(s.value, ast.Call) and isinstance(s.value.func, ast.Attribute) and isinstance(s.value.func.value, ast.Name)
               and s.value.func.value.id in ("_logger", "_log", "log") for s in stmts)

def translate_learn(src_root):
    rel = "basic/bias.py"; src = open(os.path.join(src_root, rel)).read(); mod = ast.parse(src)
    cls = next(c for c in mod.body if isinstance(c, ast.ClassDef) and c.name == "BiasModel")
    fn = [m for m in cls.body if isinstance(m, ast.FunctionDef) and m.name == "learn"][-1]
    arrays = {"data", "row", "col"}; scalars = {"dampI", "dampU"}; lines = []; notes = []; out = {}
    def name(e):
        t = ast.unparse(e)
        if t in ATOMS: return ATOMS[t]
        if isinstance(e, ast.Name) and (e.id in arrays or e.id in scalars): return e.id
        if isinstance(e, ast.Constant) and isinstance(e.value, (int, float)): return f"({e.value} : Q)" if float(e.value) == int(e.value) and not isinstance(e.value, float) else None
        return None
    def need(e):
        n = name(e)
        if n is None: raise Unsupported(f"line {e.lineno}: operand `{ast.unparse(e)}`")
        return n
    started = False
    def walk(stmts):
        nonlocal started
        for s in stmts:
            if isinstance(s, ast.Expr) and isinstance(s.value, ast.Constant): continue
            if _only_logging([s]): continue
            if isinstance(s, ast.If):
                t = ast.unparse(s.test)
                if t in ("'item' in entities", "'user' in entities") and not s.orelse:
                    notes.append(f"line {s.lineno}: `if {t}:` inlined (default configuration: both entity kinds)"); walk(s.body); continue
                if _only_logging(s.body) and not s.orelse: continue          # a warning, nothing else
                if not started: continue          # argument normalisation before the data are read
                raise Unsupported(f"line {s.lineno}: if {t}")
            if isinstance(s, ast.Assign) and len(s.targets) == 1:
                t, v = s.targets[0], s.value
                if isinstance(t, ast.Name):
                    if isinstance(v, ast.Call) and ast.unparse(v.func) == "float" and len(v.args) == 1 and isinstance(v.args[0], ast.Call) and ast.unparse(v.args[0].func) == "np.mean":
                        started = True; scalars.add(t.id); lines.append(f"  let {t.id} := npMean {need(v.args[0].args[0])}"); continue
                    if not started:
                        if ast.unparse(t) == "ratings" or ast.unparse(s).startswith(("damping =",)): continue
                        continue
                    if isinstance(v, ast.BinOp) and isinstance(v.op, ast.Sub):
                        a, b = need(v.left), need(v.right)
                        if a in arrays and b in scalars: arrays.add(t.id); lines.append(f"  let {t.id} := npSubScalar {a} {b}"); continue
                    if isinstance(v, ast.Call) and ast.unparse(v.func) == "np.full" and len(v.args) == 2:
                        arrays.add(t.id); lines.append(f"  let {t.id} := npFull {need(v.args[0])} {need(v.args[1])}"); continue
                    if isinstance(v, ast.Call) and ast.unparse(v.func) == "np.zeros" and len(v.args) == 1:
                        arrays.add(t.id); lines.append(f"  let {t.id} := npZeros {need(v.args[0])}"); continue
                    if isinstance(v, ast.Call) and isinstance(v.func, ast.Name) and v.func.id == "cls" and len(v.args) == 2:
                        out["global"] = need(v.args[1]); out["model"] = t.id; continue
                    raise Unsupported(f"line {s.lineno}: {ast.unparse(s)[:80]}")
                if isinstance(t, ast.Attribute) and isinstance(t.value, ast.Name) and t.value.id == out.get("model"):
                    if t.attr in ("item_biases", "user_biases"): out[t.attr] = need(v)
                    continue          # vocabularies
                if isinstance(t, ast.Tuple) and ast.unparse(s) == "nrows, ncols = ratings.shape": continue
                raise Unsupported(f"line {s.lineno}: {ast.unparse(s)[:80]}")
            if isinstance(s, ast.Expr) and isinstance(s.value, ast.Call):
                c = s.value; f = ast.unparse(c.func)
                if f == "np.add.at" and len(c.args) == 3 and isinstance(c.args[0], ast.Name) and c.args[0].id in arrays:
                    x = c.args[0].id; idx = need(c.args[1]); v = c.args[2]
                    if isinstance(v, ast.Constant) and v.value == 1: lines.append(f"  let {x} := npAddAtScalar {x} {idx} 1"); continue
                    lines.append(f"  let {x} := npAddAt {x} {idx} {need(v)}"); continue
                if f == "np.divide" and len(c.args) == 2:
                    kw = {k.arg: k.value for k in c.keywords}
                    a, b = need(c.args[0]), need(c.args[1])
                    if isinstance(kw.get("out"), ast.Name) and kw["out"].id in arrays and ast.unparse(kw.get("where")) == f"{b} > 0":
                        x = kw["out"].id; lines.append(f"  let {x} := npDivideWhere {a} {b} {x}"); continue
                raise Unsupported(f"line {s.lineno}: {ast.unparse(s)[:80]}")
            if isinstance(s, ast.AugAssign) and isinstance(s.op, ast.Add) and isinstance(s.target, ast.Name) and s.target.id in arrays \
                    and isinstance(s.value, ast.Call) and ast.unparse(s.value.func) == "np.bincount" and len(s.value.args) == 1 \
                    and [k.arg for k in s.value.keywords] == ["minlength"]:
                lines.append(f"  let {s.target.id} := npAdd {s.target.id} (npBincount {need(s.value.args[0])} {need(s.value.keywords[0].value)})"); continue
            if isinstance(s, ast.AugAssign) and isinstance(s.op, ast.Sub) and isinstance(s.target, ast.Name) and s.target.id in arrays \
                    and isinstance(s.value, ast.Subscript) and isinstance(s.value.value, ast.Name) and s.value.value.id in arrays:
                lines.append(f"  let {s.target.id} := npSub {s.target.id} (npGather {s.value.value.id} {need(s.value.slice)})"); continue
            if isinstance(s, ast.Return):
                if not (isinstance(s.value, ast.Name) and s.value.id == out.get("model")): raise Unsupported("return: " + ast.unparse(s))
                continue
            raise Unsupported(f"line {s.lineno}: {ast.unparse(s)[:80]}")
    walk(fn.body)
    for k in ("global", "item_biases", "user_biases"):
        if k not in out: raise Unsupported(f"the model's `{k}` is never set")
    seg = ast.get_source_segment(src, fn)
    body = "\n".join(lines) + f"\n  ({out['global']}, {out['item_biases']}, {out['user_biases']})"
    head = ("import LK.Model.NpOps\n/-! GENERATED by translate/py2lean_np.py on every run of `./check C08`; do not edit.\n"
            f"* `biasLearn` ← {rel} BiasModel.learn, source sha256/64 {hashlib.sha256(seg.encode()).hexdigest()[:16]}\n" + "".join(f"    - {n}\n" for n in dict.fromkeys(notes))
            + "    - float32 storage of the offsets is not modelled (values are exact rationals)\n-/\nset_option linter.unusedVariables false\nnamespace LK.Gen.NpC08\nopen LK.NpOps\n\n")
    return head + ("def biasLearn (nrows ncols : Nat) (dampU dampI : Q) (row col : List Nat) (data : List Q) : Q × List Q × List Q :=\n" + body + "\n\nend LK.Gen.NpC08\n")

def _dcg_fn(mod_src, mod, fname, lean_name, params, scores_var):
    """`array_dcg` / `fixed_dcg`: rank discounts clamped below at 1, reciprocal weights, dot product / sum"""
    fn = next(f for f in mod.body if isinstance(f, ast.FunctionDef) and f.name == fname)
    lines = []; notes = []; arrays = set([scores_var] if scores_var else []); result = None
    for s in fn.body:
        if isinstance(s, ast.Expr) and isinstance(s.value, ast.Constant): continue
        u = ast.unparse(s)
        if isinstance(s, ast.Assign) and len(s.targets) == 1 and isinstance(s.targets[0], ast.Name):
            t = s.targets[0].id; v = s.value; uv = ast.unparse(v)
            if scores_var and uv == f"np.nan_to_num({scores_var})" and t == scores_var:
                notes.append(f"line {s.lineno}: `{u}` — gains are exact rationals here, NaN does not occur"); continue
            if uv in (f"np.arange(1, len({scores_var}) + 1)" if scores_var else "", "np.arange(1, n + 1)"):
                arrays.add(t); lines.append(f"  let {t} := npArange1 " + (f"{scores_var}.length" if scores_var and "len(" in uv else "n")); continue
            if isinstance(v, ast.Call) and ast.unparse(v.func) == "np.asarray" and isinstance(v.args[0], ast.Call) and ast.unparse(v.args[0].func) == "discount" \
                    and isinstance(v.args[0].args[0], ast.Name) and v.args[0].args[0].id in arrays:
                arrays.add(t); lines.append(f"  let {t} := npApply discount {v.args[0].args[0].id}")
                notes.append(f"line {s.lineno}: the discount function is applied rank by rank"); continue
            if isinstance(v, ast.Call) and ast.unparse(v.func) == "np.maximum" and len(v.args) == 2 and isinstance(v.args[0], ast.Name) and v.args[0].id in arrays and ast.unparse(v.args[1]) == "1" and not v.keywords:
                arrays.add(t); lines.append(f"  let {t} := npMaximumScalar {v.args[0].id} 1"); continue
            if isinstance(v, ast.Call) and ast.unparse(v.func) == "np.reciprocal" and len(v.args) == 1 and isinstance(v.args[0], ast.Name) and v.args[0].id in arrays and not v.keywords:
                arrays.add(t); lines.append(f"  let {t} := npReciprocal {v.args[0].id}"); continue
            raise Unsupported(f"{fname} line {s.lineno}: {u[:80]}")
        if isinstance(s, ast.Expr) and isinstance(s.value, ast.Call):
            c = s.value; f = ast.unparse(c.func); kw = {k.arg: ast.unparse(k.value) for k in c.keywords}
            if f == "np.maximum" and len(c.args) == 2 and isinstance(c.args[0], ast.Name) and c.args[0].id in arrays and ast.unparse(c.args[1]) == "1" and kw == {"out": c.args[0].id}:
                lines.append(f"  let {c.args[0].id} := npMaximumScalar {c.args[0].id} 1"); continue
            if f == "np.reciprocal" and len(c.args) == 1 and isinstance(c.args[0], ast.Name) and c.args[0].id in arrays and kw == {"out": c.args[0].id}:
                lines.append(f"  let {c.args[0].id} := npReciprocal {c.args[0].id}"); continue
            raise Unsupported(f"{fname} line {s.lineno}: {u[:80]}")
        if isinstance(s, ast.Return):
            uv = ast.unparse(s.value)
            v = s.value
            if isinstance(v, ast.Call) and ast.unparse(v.func) == "np.dot" and len(v.args) == 2 and all(isinstance(a, ast.Name) and a.id in arrays for a in v.args):
                result = f"npDot {v.args[0].id} {v.args[1].id}"; break
            if isinstance(v, ast.Call) and ast.unparse(v.func) == "np.sum" and len(v.args) == 1 and isinstance(v.args[0], ast.Name) and v.args[0].id in arrays:
                result = f"npSum {v.args[0].id}"; break
            raise Unsupported(f"{fname} return: {uv[:80]}")
        raise Unsupported(f"{fname} line {s.lineno}: {u[:80]}")
    if result is None: raise Unsupported(f"{fname}: no return")
    seg = ast.get_source_segment(mod_src, fn)
    return (f"def {lean_name} {params} : Q :=\n" + "\n".join(lines) + f"\n  {result}\n", notes, hashlib.sha256(seg.encode()).hexdigest()[:16])

def translate_dcg(src_root):
    rel = "metrics/ranking/_dcg.py"; src = open(os.path.join(src_root, rel)).read(); mod = ast.parse(src)
    a, na, da = _dcg_fn(src, mod, "array_dcg", "arrayDcgT", "(discount : Nat → Q) (scores : List Q)", "scores")
    f, nf, df = _dcg_fn(src, mod, "fixed_dcg", "fixedDcgT", "(discount : Nat → Q) (n : Nat)", None)
    head = ("import LK.Model.NpOps\n/-! GENERATED by translate/py2lean_np.py on every run of `./check C06`; do not edit.\n"
            f"* `arrayDcgT` ← {rel} array_dcg, source sha256/64 {da}\n" + "".join(f"    - {n}\n" for n in dict.fromkeys(na))
            + f"* `fixedDcgT` ← {rel} fixed_dcg, source sha256/64 {df}\n" + "".join(f"    - {n}\n" for n in dict.fromkeys(nf))
            + "-/\nset_option linter.unusedVariables false\nnamespace LK.Gen.NpC06\nopen LK.NpOps\n\n")
    return head + a + "\n" + f + "\nend LK.Gen.NpC06\n"

if __name__ == "__main__":
    if len(sys.argv) > 1 and sys.argv[1] == "dcg": print(translate_dcg(sys.argv[2] if len(sys.argv) > 2 else "/repo/src/lenskit")); sys.exit(0)
    print(translate_learn(sys.argv[1] if len(sys.argv) > 1 else "/repo/src/lenskit"))
