"""Translate the methods of `RMSE` and `MAE` (metrics/predict.py) into Lean over pandas-like series with missing values (C07).

A series is `List (Option Q)` (`none` = NaN); `ps, ts = self.align_scores(…)` is the parameter `pairs` (the outer join), the square root
is an abstract function `root` (the model states RMSE through its square).  Recognised:
  err = ps - ts | err *= err | np.abs(err) | np.sum(s) | np.mean(s) | int(s.count()) | float(x) | np.sqrt(x) | a / b | np.nan
  tot, n = metric | x = 0.0 | for t, n in values: acc += t … (a fold; Python's loop variables stay bound after the loop and are
  modelled so: a later use of `n` means the last element's) | if a > 0: return … else: return …
"""
import ast, hashlib, os, sys

class Unsupported(Exception): pass
U = ast.unparse

class A:
    def __init__(self): self.notes = []
    def ex(self, e, env):
        if isinstance(e, ast.Name):
            if e.id in env: return env[e.id]
            raise Unsupported(f"unbound name `{e.id}`")
        if isinstance(e, ast.Constant) and isinstance(e.value, (int, float)): 
            if float(e.value) == int(e.value): return (f"({int(e.value)} : Q)", "q")
        if isinstance(e, ast.Attribute) and U(e) in ("np.nan", "numpy.nan"): return ("none", "oq")
        if isinstance(e, ast.BinOp):
            l, r = self.ex(e.left, env), self.ex(e.right, env)
            if isinstance(e.op, ast.Sub) and l[1] == "ser" and r[1] == "ser": return (f"(serSub {l[0]} {r[0]})", "ser")
            if isinstance(e.op, ast.Div) and l[1] in ("q",) and r[1] in ("q", "n"): return (f"({l[0]} / ({r[0]} : Q))", "q")
            raise Unsupported(f"`{U(e)}`")
        if isinstance(e, ast.Call):
            f = U(e.func)
            if f == "np.abs" and len(e.args) == 1:
                a = self.ex(e.args[0], env)
                if a[1] == "ser": return (f"(serAbs {a[0]})", "ser")
            if f == "np.sum" and len(e.args) == 1:
                a = self.ex(e.args[0], env)
                if a[1] == "ser": return (f"(serSum {a[0]})", "q")
            if f == "np.mean" and len(e.args) == 1:
                a = self.ex(e.args[0], env)
                if a[1] == "ser": return (f"(serMean {a[0]})", "oq")
            if f == "np.sqrt" and len(e.args) == 1:
                a = self.ex(e.args[0], env)
                if a[1] == "q": return (f"(root {a[0]})", "q")
                if a[1] == "oq": return (f"(({a[0]}).map root)", "oq")
            if f in ("float", "int") and len(e.args) == 1:
                inner = e.args[0]
                if isinstance(inner, ast.Call) and isinstance(inner.func, ast.Attribute) and inner.func.attr == "count" and not inner.args:
                    a = self.ex(inner.func.value, env)
                    if a[1] == "ser": return (f"(serCount {a[0]})", "n")
                return self.ex(inner, env)
        raise Unsupported(f"expression `{U(e)[:60]}`")

    def block(self, stmts, env, ind):
        pad = "  " * ind
        if not stmts: raise Unsupported("no return")
        s, rest = stmts[0], list(stmts[1:])
        if isinstance(s, ast.Expr) and isinstance(s.value, ast.Constant): return self.block(rest, env, ind)
        if isinstance(s, ast.Assign) and len(s.targets) == 1:
            t = s.targets[0]; u = U(s)
            if isinstance(t, ast.Tuple) and isinstance(s.value, ast.Call) and U(s.value.func) == "self.align_scores" and [U(x) for x in t.elts] == ["ps", "ts"]:
                return self.block(rest, {**env, "ps": ("(pairs.map (·.1))", "ser"), "ts": ("(pairs.map (·.2))", "ser")}, ind)
            if isinstance(t, ast.Tuple) and len(t.elts) == 2 and isinstance(s.value, ast.Name) and env.get(s.value.id, ("", ""))[1] == "pairqn":
                a, b = t.elts[0].id, t.elts[1].id
                return f"{pad}let {a} := {env[s.value.id][0]}.1\n{pad}let {b} := {env[s.value.id][0]}.2\n" + self.block(rest, {**env, a: (a, "q"), b: (b, "n")}, ind)
            if isinstance(t, ast.Name):
                v = self.ex(s.value, env)
                return f"{pad}let {t.id} := {v[0]}\n" + self.block(rest, {**env, t.id: (t.id, v[1])}, ind)
            raise Unsupported(f"line {s.lineno}: {u[:80]}")
        if isinstance(s, ast.AugAssign) and isinstance(s.target, ast.Name) and isinstance(s.op, ast.Mult) and U(s.value) == s.target.id and env.get(s.target.id, ("", ""))[1] == "ser":
            x = s.target.id
            return f"{pad}let {x} := serMul {env[x][0]} {env[x][0]}\n" + self.block(rest, {**env, x: (x, "ser")}, ind)
        if isinstance(s, ast.For):
            # for t, n in values: acc1 += t; acc2 += n     (accumulators were initialised to 0.0 before the loop)
            if not (isinstance(s.target, ast.Tuple) and len(s.target.elts) == 2 and isinstance(s.iter, ast.Name) and env.get(s.iter.id, ("", ""))[1] == "vals" and not s.orelse):
                raise Unsupported(f"line {s.lineno}: loop `{U(s)[:60]}`")
            lv = [x.id for x in s.target.elts]; out = ""; env2 = dict(env)
            for b in s.body:
                if not (isinstance(b, ast.AugAssign) and isinstance(b.op, ast.Add) and isinstance(b.target, ast.Name) and isinstance(b.value, ast.Name) and b.value.id in lv and b.target.id in env):
                    raise Unsupported(f"line {b.lineno}: loop body `{U(b)[:60]}`")
                k = lv.index(b.value.id); acc = b.target.id
                proj = "(·.1)" if k == 0 else "(fun x => (x.2 : Q))"
                out += f"{pad}let {acc} := {env[acc][0]} + serSumQ ({env[s.iter.id][0]}.map {proj})\n"; env2[acc] = (acc, "q")
            # Python keeps the loop variables bound to the last element
            self.notes.append(f"line {s.lineno}: after the loop `{lv[0]}`, `{lv[1]}` stay bound to the last element of `{s.iter.id}` (unbound if it is empty)")
            env2[lv[0]] = (f"(lastOf {env[s.iter.id][0]}).1", "q"); env2[lv[1]] = (f"(lastOf {env[s.iter.id][0]}).2", "n")
            return out + self.block(rest, env2, ind)
        if isinstance(s, ast.If) and isinstance(s.test, ast.Compare) and len(s.test.ops) == 1 and isinstance(s.test.ops[0], ast.Gt) and U(s.test.comparators[0]) == "0":
            a = self.ex(s.test.left, env)
            return f"{pad}if {a[0]} > 0 then\n" + self.block(list(s.body) + rest, env, ind + 1) + f"\n{pad}else\n" + self.block(list(s.orelse) + rest, env, ind + 1)
        if isinstance(s, ast.Return):
            v = s.value
            if isinstance(v, ast.Tuple) and len(v.elts) == 2:
                a, b = self.ex(v.elts[0], env), self.ex(v.elts[1], env)
                if a[1] == "q" and b[1] == "n": return f"{pad}({a[0]}, {b[0]})"
            a = self.ex(v, env)
            if a[1] == "q": return f"{pad}some {a[0]}"
            if a[1] == "oq": return f"{pad}{a[0]}"
            raise Unsupported(f"line {s.lineno}: return `{U(v)[:60]}`")
        raise Unsupported(f"line {s.lineno}: {U(s)[:80]}")

SPECS = [("measure_list", "(root : Q → Q) (pairs : List (Option Q × Option Q)) : Option Q", {}),
         ("compute_list_data", "(root : Q → Q) (pairs : List (Option Q × Option Q)) : Q × Nat", {}),
         ("extract_list_metric", "(root : Q → Q) (metric : Q × Nat) : Option Q", {"metric": ("metric", "pairqn")}),
         ("global_aggregate", "(root : Q → Q) (values : List (Q × Nat)) : Option Q", {"values": ("values", "vals")})]

def generate(src_root):
    rel = "metrics/predict.py"; src = open(os.path.join(src_root, rel)).read(); mod = ast.parse(src)
    parts = []; notes = []
    for cls in ("RMSE", "MAE"):
        c = next(x for x in mod.body if isinstance(x, ast.ClassDef) and x.name == cls)
        for fn_name, sig, env in SPECS:
            fn = [m for m in c.body if isinstance(m, ast.FunctionDef) and m.name == fn_name]
            if not fn: raise Unsupported(f"{cls}.{fn_name} not found")
            fn = fn[-1]; a = A()
            nm = cls.lower() + "".join(w.capitalize() for w in fn_name.split("_"))
            body = a.block(fn.body, env, 1)
            parts.append(f"def {nm} {sig} :=\n{body}\n")
            notes.append(f"* `{nm}` ← {rel} {cls}.{fn_name}, source sha256/64 {hashlib.sha256(ast.get_source_segment(src, fn).encode()).hexdigest()[:16]}" + "".join(f"\n    - {n}" for n in dict.fromkeys(a.notes)))
    return ("import LK.Model.SeriesOps\n/-! GENERATED by translate/py2lean_agg.py on every run of `./check C07`; do not edit.\n" + "\n".join(notes)
            + "\n-/\nset_option linter.unusedVariables false\nnamespace LK.Gen.AggC07\nopen LK.SeriesOps\n\n" + "\n".join(parts) + "\nend LK.Gen.AggC07\n")

if __name__ == "__main__":
    print(generate(sys.argv[1] if len(sys.argv) > 1 else "/repo/src/lenskit"))
