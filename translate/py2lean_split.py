"""Translate the record splitters' bookkeeping (splitting/records.py) into Lean (C05) — a strict statement matcher, records being list
positions:
  _make_pair          mask = np.zeros(len(df), np.bool_); mask[test_is] = True; test = …from_df(df[mask], …);
                      a builder started from the dataset, its interaction records cleared, `df[~mask]` added unless `test_only`; TTSplit(train, test)
  crossfold_records   rows = np.arange(n); rng.shuffle(rows); test_sets = np.array_split(rows, partitions); one `_make_pair` per set
  _disjoint_samples   xs = np.arange(n); rng.shuffle(xs); for i in range(reps): yield xs[i * size : i * size + size]
The shuffled index array is the parameter `perm` (whatever the generator produced); `df` is the record list.
"""
import ast, hashlib, os, sys

class Unsupported(Exception): pass
U = ast.unparse

def strip(stmts):
    return [s for s in stmts if not (isinstance(s, ast.Expr) and isinstance(s.value, ast.Constant)) and not isinstance(s, ast.Assert)
            and not (isinstance(s, ast.Expr) and isinstance(s.value, ast.Call) and (U(s.value.func).startswith("_log.") or U(s.value.func) == "pb.update"))]

def translate_users(src_root):
    """splitting/users.py: `_make_split` (hold out `method(row)` for every test user; training = the records whose (user, item) pair was
    not held out, or nothing) and `crossfold_users` (one split per part of the shuffled user positions)"""
    rel = "splitting/users.py"; src = open(os.path.join(src_root, rel)).read(); mod = ast.parse(src); segs = []
    fn, b = body_of(mod, "_make_split"); segs.append(ast.get_source_segment(src, fn))
    if [a.arg for a in fn.args.args] + [a.arg for a in fn.args.kwonlyargs] != ["data", "df", "test_us", "method", "test_only"]: raise Unsupported("_make_split parameters")
    if len(b) != 6 or not isinstance(b[1], ast.With) or not isinstance(b[4], ast.If): raise Unsupported("_make_split: unexpected statement sequence")
    expect([b[0], b[2], b[3], b[5]], ["test = ItemListCollection(UserIDKey)", "train_build = DatasetBuilder(data)", "iname = data.default_interaction_class()",
                                      "return TTSplit(train_build.build(), test)"], "_make_split")
    wb = strip(b[1].body)
    if len(wb) != 1 or not isinstance(wb[0], ast.For) or U(wb[0].target) != "u" or U(wb[0].iter) != "test_us": raise Unsupported("_make_split: the loop over the test users")
    expect(strip(wb[0].body), ["row = data.user_row(u)", "u_test = method(row)", "test.add(u_test, u)"], "_make_split loop")
    if U(b[4].test) != "test_only": raise Unsupported("_make_split: the `if test_only` step")
    expect(b[4].body, ["train_build.clear_relationships(iname)"], "_make_split (test only)")
    expect(b[4].orelse, ["test_tbl = test.to_df()[['user_id', 'item_id']]", "train_build.filter_interactions(iname, remove=test_tbl)"], "_make_split (training records)")
    fn, b = body_of(mod, "crossfold_users"); segs.append(ast.get_source_segment(src, fn))
    loops = [s for s in b if isinstance(s, ast.For)]
    if len(loops) != 1: raise Unsupported("crossfold_users: one loop expected")
    k = b.index(loops[0])
    expect(b[:k], ["rng = random_generator(rng)", "users = data.users.ids()", "rows = np.arange(len(users))", ("rng.shuffle(rows)", "rows = rng.permutation(rows)"), "test_sets = np.array_split(rows, partitions)",
                   "df = data.interaction_matrix(format='pandas', original_ids=True)"], "crossfold_users")
    if U(loops[0].target) != "(i, ts)" or U(loops[0].iter) != "enumerate(test_sets)" or b[k + 1:]: raise Unsupported("crossfold_users: loop header")
    expect(strip(loops[0].body), ["test_us = users[ts]", "yield _make_split(data, df, test_us, method, test_only=test_only)"], "crossfold_users loop")
    text = ("""/-- `_make_split`: `method` picks the held-out part of a user's row; the training records are those whose (user, item) pair was not
    held out — or none, when only the test data is wanted -/
def makeSplitT {β} (recs : List (IRec β)) (test_us : List Nat) (method : Nat → List (IRec β) → List (IRec β)) (test_only : Bool) :
    List (Nat × List (IRec β)) × List (IRec β) :=
  let test := test_us.map (fun u =>
    let row := rowOf recs u
    let u_test := method u row
    (u, u_test))
  let train_build := recs          -- DatasetBuilder(data)
  let train_build :=
    if test_only then []
    else
      let test_tbl := test.flatMap (fun ut => ut.2.map (fun r => (r.u, r.i)))
      train_build.filter (fun r => !test_tbl.contains (r.u, r.i))
  (test, train_build)

/-- `crossfold_users`: `perm` is the shuffled array of user positions; one split per part -/
def crossfoldUsersT {β} (recs : List (IRec β)) (users : List Nat) (perm : List Nat) (partitions : Nat)
    (method : Nat → List (IRec β) → List (IRec β)) (test_only : Bool) : List (List (Nat × List (IRec β)) × List (IRec β)) :=
  let rows := perm
  let test_sets := arraySplit rows partitions
  test_sets.map (fun ts =>
    let test_us := ts.map (fun j => users.getD j 0)
    makeSplitT recs test_us method test_only)
""")
    return text, "\n".join(segs), rel

def translate_temporal(src_root):
    """splitting/temporal.py `split_global_time`: the loop over the cut-off times (already converted by `_make_time`)"""
    rel = "splitting/temporal.py"; src = open(os.path.join(src_root, rel)).read(); mod = ast.parse(src)
    fn, b = body_of(mod, "split_global_time")
    loops = [s for s in b if isinstance(s, ast.For)]
    if len(loops) != 1 or U(loops[0].target) != "(i, t)" or U(loops[0].iter) != "enumerate(times)": raise Unsupported("split_global_time: the loop over the times")
    lb = [s for s in strip(loops[0].body) if not (isinstance(s, ast.Assign) and U(s.targets[0]) == "tlog") and not (isinstance(s, ast.Expr) and U(s.value).startswith("tlog."))]
    ifs = [s for s in lb if isinstance(s, ast.If)]
    if len(ifs) != 2: raise Unsupported("split_global_time: two `if` steps expected in the loop")
    k1, k2 = lb.index(ifs[0]), lb.index(ifs[1])
    expect(lb[:k1], ["mask = ts_col >= t", "train_build = DatasetBuilder(data)", "train_build.filter_interactions(iname, max_time=t)", "t2 = end"], "split_global_time loop")
    if U(ifs[0].test) != "i + 1 < len(times)" or ifs[0].orelse: raise Unsupported("split_global_time: the upper-bound step")
    expect(ifs[0].body, ["t2 = times[i + 1]"], "split_global_time: the upper bound")
    if lb[k1 + 1:k2]: raise Unsupported("split_global_time: statement between the two `if` steps")
    if U(ifs[1].test) != "t2 is None": raise Unsupported("split_global_time: the `t2 is None` step")
    expect(ifs[1].body, ["test = matrix[mask]"], "split_global_time: unbounded test window")
    expect([s for s in strip(ifs[1].orelse) if not (isinstance(s, ast.Assign) and U(s.targets[0]) == "tlog") and not (isinstance(s, ast.Expr) and U(s.value).startswith("tlog."))],
           ["test = matrix[mask & (ts_col < t2)]"], "split_global_time: bounded test window")
    expect(lb[k2 + 1:], ["train_ds = train_build.build()", "test_ilc = ItemListCollection.from_df(test, ['user_id'])", "results.append(TTSplit(train_ds, test_ilc))"], "split_global_time: results")
    text = ("""/-- one round of the loop of `split_global_time`: cut-off `t` at position `i` of `times`; `filter_interactions(max_time=t)` keeps the
    records strictly before `t` -/
def globalTimeRoundT {β} (recs : List (IRec β)) (times : List Int) (end_ : Option Int) (i : Nat) (t : Int) : List (IRec β) × List (IRec β) :=
  let mask := recs.map (fun r => decide (t ≤ r.t))
  let train_build := recs.filter (fun r => decide (r.t < t))
  let t2 := end_
  let t2 := if i + 1 < times.length then times[i + 1]? else t2
  let test := match t2 with
    | none => selectMask recs mask
    | some t2 => selectMask recs (List.zipWith (fun a b => a && b) mask (recs.map (fun r => decide (r.t < t2))))
  (train_build, test)

/-- `split_global_time`: one split per cut-off -/
def splitGlobalTimeT {β} (recs : List (IRec β)) (times : List Int) (end_ : Option Int) : List (List (IRec β) × List (IRec β)) :=
  (List.range times.length).map (fun i => globalTimeRoundT recs times end_ i (times.getD i 0))
""")
    return text, ast.get_source_segment(src, loops[0]), rel

def body_of(mod, name):
    fns = [f for f in mod.body if isinstance(f, ast.FunctionDef) and f.name == name]
    if not fns: raise Unsupported(f"{name} not found")
    fn = fns[-1]
    return fn, strip(fn.body)

def expect(stmts, texts, where):
    """the statements, as text, must be the listed ones in order; a listed entry may be a tuple of equivalent forms"""
    got = [U(s) for s in stmts]
    same = lambda g, t: g in t if isinstance(t, tuple) else g == t
    if len(got) != len(texts) or not all(same(g, t) for g, t in zip(got, texts)):
        bad = next((g for g, t in zip(got, texts) if not same(g, t)), None) or (got[len(texts)] if len(got) > len(texts) else "a statement is missing")
        raise Unsupported(f"{where}: `{bad[:90]}`")

def translate(src_root):
    rel = "splitting/records.py"; src = open(os.path.join(src_root, rel)).read(); mod = ast.parse(src); segs = []
    # _make_pair
    fn, b = body_of(mod, "_make_pair"); segs.append(ast.get_source_segment(src, fn))
    if [a.arg for a in fn.args.args] + [a.arg for a in fn.args.kwonlyargs] != ["data", "df", "test_is", "test_only"]: raise Unsupported("_make_pair parameters")
    iff = [s for s in b if isinstance(s, ast.If)]
    if len(iff) != 1 or U(iff[0].test) != "not test_only" or iff[0].orelse: raise Unsupported("_make_pair: the `if not test_only` step")
    expect(iff[0].body, ["train_build.add_interactions(iname, df[~mask])"], "_make_pair: what is added to the training builder")
    k = b.index(iff[0])
    expect(b[:k], ["mask = np.zeros(len(df), np.bool_)", "mask[test_is] = True", "test = ItemListCollection.from_df(df[mask], UserIDKey)",
                   "train_build = DatasetBuilder(data)", "iname = data.default_interaction_class()", "train_build.clear_relationships(iname)"], "_make_pair")
    expect(b[k + 1:], ["train = train_build.build()", "return TTSplit(train, test)"], "_make_pair result")
    make_pair = ("""/-- `_make_pair`: records at the test positions, and the others (or nothing) as the training records -/
def makePairT {α} (df : List α) (test_is : List Nat) (test_only : Bool) : Pair α :=
  let mask := List.replicate df.length false
  let mask := setTrueAt mask test_is
  let test := selectMask df mask
  let train_build : List α := []          -- DatasetBuilder(data) with the interaction records cleared
  let train_build := if !test_only then train_build ++ selectMask df (mask.map not) else train_build
  { train := train_build, test := test }
""")
    # crossfold_records
    fn, b = body_of(mod, "crossfold_records"); segs.append(ast.get_source_segment(src, fn))
    loops = [s for s in b if isinstance(s, ast.For)]
    if len(loops) != 1: raise Unsupported("crossfold_records: one loop expected")
    k = b.index(loops[0])
    expect(b[:k], ["rng = random_generator(rng)", "df = data.interactions().pandas(ids=True)", "n = len(df)", "rows = np.arange(n)", ("rng.shuffle(rows)", "rows = rng.permutation(rows)"),
                   "test_sets = np.array_split(rows, partitions)"], "crossfold_records")
    if U(loops[0].target) != "ts" or U(loops[0].iter) != "test_sets" or b[k + 1:]: raise Unsupported("crossfold_records: loop header")
    expect(loops[0].body, ["yield _make_pair(data, df, ts, test_only=test_only)"], "crossfold_records loop")
    crossfold = ("""/-- `crossfold_records`: `perm` is `np.arange(n)` after `rng.shuffle` -/
def crossfoldRecordsT {α} (df : List α) (perm : List Nat) (partitions : Nat) (test_only : Bool) : List (Pair α) :=
  let rows := perm
  let test_sets := arraySplit rows partitions
  test_sets.map (fun ts => makePairT df ts test_only)
""")
    # _disjoint_samples
    fn, b = body_of(mod, "_disjoint_samples"); segs.append(ast.get_source_segment(src, fn))
    loops = [s for s in b if isinstance(s, ast.For)]
    if len(loops) != 1: raise Unsupported("_disjoint_samples: one loop expected")
    k = b.index(loops[0])
    expect(b[:k], ["xs = np.arange(n, dtype=np.int32)", ("rng.shuffle(xs)", "xs = rng.permutation(xs)")], "_disjoint_samples")
    if U(loops[0].target) != "i" or U(loops[0].iter) != "range(reps)" or b[k + 1:]: raise Unsupported("_disjoint_samples: loop header")
    expect(loops[0].body, ["start = i * size", "end = start + size", "yield xs[start:end]"], "_disjoint_samples loop")
    disjoint = ("""/-- `_disjoint_samples`: consecutive windows of the shuffled index array -/
def disjointSamplesT (perm : List Nat) (size reps : Nat) : List (List Nat) :=
  let xs := perm
  (List.range reps).map (fun i =>
    let start := i * size
    let end_ := start + size
    pySlice xs start end_)
""")
    utext, useg, urel = translate_users(src_root)
    ttext, tseg, trel = translate_temporal(src_root)
    seg = "\n".join(segs) + "\n" + useg + "\n" + tseg
    return ("import LK.Model.SplitOps\n/-! GENERATED by translate/py2lean_split.py on every run of `./check C05`; do not edit.\n"
            f"* `makePairT`, `crossfoldRecordsT`, `disjointSamplesT` ← {rel} _make_pair, crossfold_records, _disjoint_samples; `makeSplitT`, `crossfoldUsersT` ← {urel} _make_split, crossfold_users; `globalTimeRoundT`, `splitGlobalTimeT` ← {trel} split_global_time (the loop); source sha256/64 {hashlib.sha256(seg.encode()).hexdigest()[:16]}\n"
            "    - records are list positions of `df`; `perm` is the index array after `rng.shuffle`\n-/\n"
            "set_option linter.unusedVariables false\nnamespace LK.Gen.SplitC05\nopen LK.Split LK.SplitOps\n\n" + make_pair + "\n" + crossfold + "\n" + disjoint + "\n" + utext + "\n" + ttext + "\nend LK.Gen.SplitC05\n")

if __name__ == "__main__":
    print(translate(sys.argv[1] if len(sys.argv) > 1 else "/repo/src/lenskit"))
