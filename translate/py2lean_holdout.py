"""Translate the `__call__` of the holdout methods (`SampleN`, `SampleFrac`, `LastN`, `LastFrac`) into Lean (C05).

The result of a holdout is rendered as the list of *positions* of the selected rows.  Recognised: `len(items)`, `return items`
(all positions), `items.field(self.field)` (the ordering column; the `raise` for a missing column is passed over — the translation
assumes the column exists), `np.argsort(col)`, Python slices `x[a:]` with an integer start, `items[positions]`,
`self.rng.choice(len(items), k, replace=False)` (atom `picks`: whatever the generator returns) and `round(len(items) * self.fraction)`
(atom `nFrac`: floating-point rounding is not modelled).
"""
import ast, hashlib, os, sys

class Unsupported(Exception): pass

def _fn(mod, cls):
    c = next((x for x in mod.body if isinstance(x, ast.ClassDef) and x.name == cls), None)
    if c is None: raise Unsupported(f"class {cls} not found")
    f = [m for m in c.body if isinstance(m, ast.FunctionDef) and m.name == "__call__"]
    if not f: raise Unsupported(f"{cls}.__call__ not found")
    return f[-1]

class H:
    def __init__(self): self.notes = []
    def val(self, e, env):
        """(Lean term, type) with types N (Nat), Z (Int), P (positions), T (times column)"""
        u = ast.unparse(e)
        if isinstance(e, ast.Name) and e.id in env: return env[e.id]
        if u == "len(items)": return ("times.length", "N")
        if u == "self.n": return ("n", "N")
        if u == "items": return ("(List.range times.length)", "P")
        if u == "items.field(self.field)": return ("times", "T")
        if u == "round(len(items) * self.fraction)":
            self.notes.append(f"line {e.lineno}: `{u}` is the parameter `nFrac` (floating-point rounding is not modelled)"); return ("nFrac", "N")
        if isinstance(e, ast.Call) and ast.unparse(e.func) == "self.rng.choice" and len(e.args) == 2 and ast.unparse(e.args[0]) == "len(items)" \
                and {k.arg: ast.unparse(k.value) for k in e.keywords} == {"replace": "False"}:
            k = self.val(e.args[1], env)
            if k[1] == "N":
                self.notes.append(f"line {e.lineno}: `{u}` is the parameter `picks` ({k[0]} distinct positions, whatever the generator returns)"); return ("picks", "P")
        if isinstance(e, ast.Call) and ast.unparse(e.func) == "np.argsort" and len(e.args) == 1 and not e.keywords:
            c = self.val(e.args[0], env)
            if c[1] == "T":
                self.notes.append(f"line {e.lineno}: `np.argsort` is the model's `argsortBy` (order among equal keys is outside the claim)")
                return (f"(npArgsort {c[0]})", "P")
        if isinstance(e, ast.Call) and ast.unparse(e.func) == "len" and len(e.args) == 1:
            a = self.val(e.args[0], env)
            if a[1] == "P": return (f"({a[0]}).length", "N")
        if isinstance(e, ast.BinOp) and isinstance(e.op, ast.Sub):
            l, r = self.val(e.left, env), self.val(e.right, env)
            if l[1] == "N" and r[1] == "N": return (f"((({l[0]} : Nat) : Int) - (({r[0]} : Nat) : Int))", "Z")
        if isinstance(e, ast.UnaryOp) and isinstance(e.op, ast.USub):
            a = self.val(e.operand, env)
            if a[1] == "N": return (f"(-(({a[0]} : Nat) : Int))", "Z")
        if isinstance(e, ast.Subscript):
            b = self.val(e.value, env) if ast.unparse(e.value) != "items" else ("ITEMS", "ITEMS")
            if b[1] == "ITEMS":
                i = self.val(e.slice, env)
                if i[1] == "P": return i          # items[positions]: the selected rows
            if b[1] == "P" and isinstance(e.slice, ast.Slice) and e.slice.upper is None and e.slice.step is None and e.slice.lower is not None:
                lo = self.val(e.slice.lower, env)
                if lo[1] == "Z": return (f"(pySliceFrom {b[0]} {lo[0]})", "P")
                if lo[1] == "N": return (f"(pySliceFrom {b[0]} (({lo[0]} : Nat) : Int))", "P")
        raise Unsupported(f"line {getattr(e, 'lineno', '?')}: `{u}`")
    def block(self, stmts, env, ind):
        pad = "  " * ind
        if not stmts: raise Unsupported("no return")
        s, rest = stmts[0], list(stmts[1:])
        if isinstance(s, ast.Return):
            v = self.val(s.value, env)
            if v[1] != "P": raise Unsupported(f"line {s.lineno}: return `{ast.unparse(s.value)}`")
            return pad + v[0]
        if isinstance(s, ast.Assign) and len(s.targets) == 1 and isinstance(s.targets[0], ast.Name):
            v = self.val(s.value, env); t = s.targets[0].id
            if v[1] == "T": return self.block(rest, {**env, t: v}, ind)
            return f"{pad}let {t} := {v[0]}\n" + self.block(rest, {**env, t: (t, v[1])}, ind)
        if isinstance(s, ast.If):
            u = ast.unparse(s.test)
            if len(s.body) == 1 and isinstance(s.body[0], ast.Raise) and u.endswith("is None") and not s.orelse:
                self.notes.append(f"line {s.lineno}: the `raise` for a missing ordering column is passed over (the column is assumed to exist)")
                return self.block(rest, env, ind)
            if isinstance(s.test, ast.Compare) and len(s.test.ops) == 1 and isinstance(s.test.ops[0], (ast.LtE, ast.Lt, ast.GtE, ast.Gt, ast.Eq)):
                l, r = self.val(s.test.left, env), self.val(s.test.comparators[0], env)
                if l[1] == "N" and r[1] == "N":
                    op = {ast.LtE: "≤", ast.Lt: "<", ast.GtE: "≥", ast.Gt: ">", ast.Eq: "="}[type(s.test.ops[0])]
                    return (f"{pad}if {l[0]} {op} {r[0]} then\n" + self.block(list(s.body) + rest, env, ind + 1) + f"\n{pad}else\n" + self.block(list(s.orelse) + rest, env, ind + 1))
            raise Unsupported(f"line {s.lineno}: if {u}")
        raise Unsupported(f"line {s.lineno}: {ast.unparse(s)[:80]}")

SITES = [("SampleN", "sampleNCall", "(times : List Int) (n : Nat) (picks : List Nat)"), ("SampleFrac", "sampleFracCall", "(times : List Int) (nFrac : Nat) (picks : List Nat)"),
         ("LastN", "lastNCall", "(times : List Int) (n : Nat)"), ("LastFrac", "lastFracCall", "(times : List Int) (nFrac : Nat)")]

def generate(src_root):
    rel = "splitting/holdout.py"; src = open(os.path.join(src_root, rel)).read(); mod = ast.parse(src)
    parts = []; notes = []
    for cls, nm, params in SITES:
        fn = _fn(mod, cls); h = H(); body = h.block(fn.body, {}, 1)
        notes.append(f"* `{nm}` ← {rel} {cls}.__call__, source sha256/64 {hashlib.sha256(ast.get_source_segment(src, fn).encode()).hexdigest()[:16]}" + "".join(f"\n    - {n}" for n in dict.fromkeys(h.notes)))
        parts.append(f"def {nm} {params} : List Nat :=\n{body}\n")
    return ("import LK.Model.HoldoutOps\n/-! GENERATED by translate/py2lean_holdout.py on every run of `./check C05`; do not edit.\nA holdout's result is the list of positions of the rows it selects.\n"
            + "\n".join(notes) + "\n-/\nset_option linter.unusedVariables false\nnamespace LK.Gen.HoldoutC05\nopen LK.HoldoutOps\n\n" + "\n".join(parts) + "\nend LK.Gen.HoldoutC05\n")

if __name__ == "__main__":
    print(generate(sys.argv[1] if len(sys.argv) > 1 else "/repo/src/lenskit"))
