"""Translate `_sim_row` (knn/item.py) — straight-line torch statements on parallel tensors — into Lean (C09).

Types of the translated values:
  Q (a number)   T (a tensor of numbers)   M (a boolean mask)   IX (a tensor of positions)   NAT (a natural number)
  ONAT (a natural number that may be `None`)   MAT (a list of row vectors)
The function's parameters `item, matrix, row, min_sim, max_nbrs` keep their names; `len(row.indices())` — the number of stored entries
of the sparse row — becomes the extra parameter `rowNnz` (the proof obligation quantifies over it, assuming only that a row without
stored entries is zero).  `x.to(dtype)`, `.to_dense()` are identities on exact rationals.  An `if` whose condition starts with
`P is not None and …` for an optional parameter becomes a `match` that refines `P` in the rest of the condition and in the body;
statements after an `if` are continued in both branches.  The result `(len(cols), cols, vals)` is rendered as `(cols, vals)`.

Also checked: `_sim_block` calls `_sim_row(i, matrix, matrix[i], min_sim, max_nbrs)` for `i in range(start, end)` — so that `row` is
the item's own vector, which is what the obligation instantiates.
"""
import ast, hashlib, os, sys

class Unsupported(Exception): pass

PARAM_TYPES = {"item": "NAT", "matrix": "MAT", "row": "T", "min_sim": "Q", "max_nbrs": "ONAT"}
IDENT_METHODS = ("to", "to_dense")

class T:
    def __init__(self): self.notes = []; self.fresh = 0

    def num(self, e):
        if isinstance(e, ast.Constant) and isinstance(e.value, (int, float)) and float(e.value) == int(e.value): return int(e.value)
        if isinstance(e, ast.UnaryOp) and isinstance(e.op, ast.USub):
            v = self.num(e.operand)
            if v is not None: return -v
        return None

    def val(self, e, env):
        if isinstance(e, ast.Name) and e.id in env: return env[e.id]
        n = self.num(e)
        if n is not None: return (f"({n})" if n < 0 else f"{n}", "LIT")
        if isinstance(e, ast.Call) and isinstance(e.func, ast.Attribute) and e.func.attr in IDENT_METHODS and ast.unparse(e.func.value) != "torch":
            b = self.val(e.func.value, env)
            if b[1] in ("T", "IX"):
                self.notes.append(f"`.{e.func.attr}(…)` is the identity on exact values")
                return b
        if isinstance(e, ast.Call):
            f = ast.unparse(e.func)
            if f == "torch.mv" and len(e.args) == 2:
                m, r = self.val(e.args[0], env), self.val(e.args[1], env)
                if m[1] == "MAT" and r[1] == "T": return (f"mv {m[0]} {r[0]}", "T")
            if f == "torch.argsort" and len(e.args) == 1 and not e.keywords:
                a = self.val(e.args[0], env)
                if a[1] == "IX": return (f"argsort {a[0]}", "IX")
            if f == "torch.clamp" and len(e.args) == 3:
                a, lo, hi = (self.val(x, env) for x in e.args)
                if a[1] == "T" and lo[1] in ("LIT", "Q") and hi[1] in ("LIT", "Q"): return (f"clamp {a[0]} {lo[0]} {hi[0]}", "T")
            if f == "len" and len(e.args) == 1:
                a = self.val(e.args[0], env)
                if a[1] in ("T", "IX"): return (f"({a[0]}).length", "NAT")
            if f == "torch.arange" and len(e.args) == 1 and all(k.arg == "dtype" for k in e.keywords):
                a = self.val(e.args[0], env)
                if a[1] == "NAT": return (f"List.range {a[0]}", "IX")
        if isinstance(e, ast.Compare) and len(e.ops) == 1 and isinstance(e.ops[0], ast.GtE):
            l, r = self.val(e.left, env), self.val(e.comparators[0], env)
            if l[1] == "T" and r[1] == "Q": return (f"geScalar {l[0]} {r[0]}", "M")
        if isinstance(e, ast.Subscript):
            # torch.nonzero(mask)[:, 0]
            if isinstance(e.value, ast.Call) and ast.unparse(e.value.func) == "torch.nonzero" and ast.unparse(e.slice) in ("(slice(None, None, None), 0)", ":, 0", "(:, 0)") or \
               (isinstance(e.value, ast.Call) and ast.unparse(e.value.func) == "torch.nonzero" and isinstance(e.slice, ast.Tuple) and len(e.slice.elts) == 2
                    and isinstance(e.slice.elts[0], ast.Slice) and e.slice.elts[0].lower is None and e.slice.elts[0].upper is None and self.num(e.slice.elts[1]) == 0):
                m = self.val(e.value.args[0], env)
                if m[1] == "M": return (f"nonzero {m[0]}", "IX")
            # x.shape[0]
            if isinstance(e.value, ast.Attribute) and e.value.attr == "shape" and self.num(e.slice) == 0:
                a = self.val(e.value.value, env)
                if a[1] in ("T", "IX"): return (f"({a[0]}).length", "NAT")
            b, i = self.val(e.value, env), self.val(e.slice, env)
            if b[1] in ("T", "IX") and i[1] == "M": return (f"indexMask ({b[0]}) ({i[0]})" if " " in b[0] + i[0] else f"indexMask {b[0]} {i[0]}", b[1])
            if b[1] in ("T", "IX") and i[1] == "IX": return (f"takeIdx {b[0]} 0 {i[0]}", b[1])
        raise Unsupported(f"line {getattr(e, 'lineno', '?')}: expression `{ast.unparse(e)}`")

    def prop(self, e, env):
        """a condition on natural numbers"""
        if isinstance(e, ast.Compare) and len(e.ops) == 1 and isinstance(e.ops[0], (ast.Lt, ast.Gt, ast.LtE, ast.GtE, ast.Eq)):
            l, r = self.val(e.left, env), self.val(e.comparators[0], env)
            if l[1] in ("NAT", "LIT") and r[1] in ("NAT", "LIT") and "(-" not in l[0] + r[0]:
                op = e.ops[0]
                if isinstance(op, ast.Lt): return f"{l[0]} < {r[0]}"
                if isinstance(op, ast.Gt): return f"{r[0]} < {l[0]}"
                if isinstance(op, ast.LtE): return f"{l[0]} ≤ {r[0]}"
                if isinstance(op, ast.GtE): return f"{r[0]} ≤ {l[0]}"
                return f"{l[0]} = {r[0]}"
        raise Unsupported(f"line {getattr(e, 'lineno', '?')}: condition `{ast.unparse(e)}`")

    def ret(self, v, env, pad):
        if isinstance(v, ast.Tuple) and len(v.elts) == 3:
            n, c, x = v.elts
            if self.num(n) == 0 and all(isinstance(z, ast.Call) and ast.unparse(z.func) == "torch.zeros" and ast.unparse(z.args[0]) == "(0,)" for z in (c, x)):
                return f"{pad}([], [])"
            cv, xv = self.val(c, env), self.val(x, env)
            if cv[1] == "IX" and xv[1] == "T" and isinstance(n, ast.Call) and ast.unparse(n.func) == "len" and ast.unparse(n.args[0]) == ast.unparse(c):
                return f"{pad}({cv[0]}, {xv[0]})"
        raise Unsupported(f"line {v.lineno}: return `{ast.unparse(v)}`")

    def block(self, stmts, env, ind):
        pad = "  " * ind
        if not stmts: raise Unsupported("function ends without a return")
        s, rest = stmts[0], list(stmts[1:])
        if isinstance(s, ast.Expr) and isinstance(s.value, ast.Constant): return self.block(rest, env, ind)
        if isinstance(s, ast.Assert): return self.block(rest, env, ind)
        if isinstance(s, ast.Return): return self.ret(s.value, env, pad)
        if isinstance(s, ast.Assign) and len(s.targets) == 1:
            t, v = s.targets[0], s.value
            # a, b = x.shape : names only (unsupported if used later, since they are never bound)
            if isinstance(t, ast.Tuple) and isinstance(v, ast.Attribute) and v.attr == "shape": return self.block(rest, env, ind)
            # vals, cis = torch.topk(vals, k, sorted=False)
            if isinstance(t, ast.Tuple) and len(t.elts) == 2 and all(isinstance(x, ast.Name) for x in t.elts) and isinstance(v, ast.Call) and ast.unparse(v.func) == "torch.topk" and len(v.args) == 2:
                a, k = self.val(v.args[0], env), self.val(v.args[1], env)
                if a[1] == "T" and k[1] == "NAT":
                    self.notes.append("`torch.topk`: positions of the k largest values; among exactly tied values the choice is unspecified (the model takes the earliest)")
                    vn, cn = t.elts[0].id, t.elts[1].id
                    return (f"{pad}let {cn} := topkIdx {a[0]} {k[0]}\n{pad}let {vn} := takeIdx {a[0]} 0 {cn}\n"
                            + self.block(rest, {**env, cn: (cn, "IX"), vn: (vn, "T")}, ind))
            if isinstance(t, ast.Name):
                term, ty = self.val(v, env)
                if ty in ("T", "IX", "M"):
                    if term == t.id: return self.block(rest, env, ind)      # x = x.to_dense()
                    return f"{pad}let {t.id} := {term}\n" + self.block(rest, {**env, t.id: (t.id, ty)}, ind)
            # sim[item] = 0
            if isinstance(t, ast.Subscript) and isinstance(t.value, ast.Name) and env.get(t.value.id, ("", ""))[1] == "T":
                i, c = self.val(t.slice, env), self.val(v, env)
                if i[1] == "NAT" and c[1] in ("LIT", "Q"):
                    x = t.value.id
                    return f"{pad}let {x} := setAt {env[x][0]} {i[0]} {c[0]}\n" + self.block(rest, {**env, x: (x, "T")}, ind)
            raise Unsupported(f"line {s.lineno}: {ast.unparse(s)[:80]}")
        if isinstance(s, ast.If):
            return self.cond(s, rest, env, ind)
        raise Unsupported(f"line {s.lineno}: {ast.unparse(s)[:80]}")

    def cond(self, s, rest, env, ind):
        pad = "  " * ind; test = s.test
        if ast.unparse(test) == "len(row.indices()) == 0" and env.get("row", ("", ""))[1] == "T" and env["row"][0] == "row":
            return (f"{pad}if rowNnz = 0 then\n" + self.block(list(s.body) + rest, env, ind + 1) + f"\n{pad}else\n" + self.block(list(s.orelse) + rest, env, ind + 1))
        conj = test.values if isinstance(test, ast.BoolOp) and isinstance(test.op, ast.And) else [test]
        first = conj[0]
        if isinstance(first, ast.Compare) and len(first.ops) == 1 and isinstance(first.ops[0], ast.IsNot) and ast.unparse(first.comparators[0]) == "None" \
                and isinstance(first.left, ast.Name) and env.get(first.left.id, ("", ""))[1] == "ONAT":
            p = first.left.id; self.fresh += 1; nm = f"v{self.fresh}"
            env_p = {**env, p: (nm, "NAT")}
            other = list(s.orelse) + rest
            el = self.block(other, env, ind + 2) if len(conj) > 1 else None
            if len(conj) > 1:
                c = " ∧ ".join(self.prop(x, env_p) for x in conj[1:])
                th = (f"{pad}    if {c} then\n" + self.block(list(s.body) + rest, env_p, ind + 3) + f"\n{pad}    else\n" + self.block(other, env_p, ind + 3))
            else:
                th = self.block(list(s.body) + rest, env_p, ind + 2)
            return f"{pad}match {env[p][0]} with\n{pad}  | some {nm} =>\n{th}\n{pad}  | none =>\n" + self.block(other, env, ind + 2)
        c = " ∧ ".join(self.prop(x, env) for x in conj)
        return (f"{pad}if {c} then\n" + self.block(list(s.body) + rest, env, ind + 1) + f"\n{pad}else\n" + self.block(list(s.orelse) + rest, env, ind + 1))

def find_fn(mod, name):
    fns = [f for f in mod.body if isinstance(f, ast.FunctionDef) and f.name == name]
    if not fns: raise Unsupported(f"no function `{name}`")
    return fns[-1]

def norm(stmts):
    """statements as text, without docstrings, assertions and progress updates"""
    out = []
    for s in stmts:
        if isinstance(s, ast.Expr) and isinstance(s.value, ast.Constant): continue
        if isinstance(s, ast.Assert): continue
        if isinstance(s, ast.Expr) and isinstance(s.value, ast.Call) and ast.unparse(s.value.func) == "pbh_update": continue
        out.append(s)
    return out

def expect(stmts, texts, where, unordered=False):
    got = [ast.unparse(s) for s in stmts]
    if (sorted(got) != sorted(texts)) if unordered else (got != texts):
        bad = next((g for g in got if g not in texts), None) or next((t for t in texts if t not in got), "order of statements")
        raise Unsupported(f"{where}: `{bad[:90]}`")

def translate_blocks(mod):
    """`_sim_block` (rows start … end−1, accumulated into counts / columns / values) and `_sim_blocks` (blocks of `block_size` rows,
    concatenated in block order, counts turned into row pointers by a cumulative sum) — matched statement by statement against the
    accumulation idiom they are written in; the statements inside each loop body may come in any order."""
    blk = find_fn(mod, "_sim_block"); body = norm(blk.body)
    if [a.arg for a in blk.args.args] != ["matrix", "start", "end", "min_sim", "max_nbrs", "pbh"]: raise Unsupported("`_sim_block` parameters")
    loops = [s for s in body if isinstance(s, ast.For)]
    if len(loops) != 1: raise Unsupported("`_sim_block`: one loop expected")
    lp = loops[0]; k = body.index(lp)
    expect(body[:k], ["bsize = end - start", "counts = torch.zeros(bsize, dtype=torch.int32)", "columns = []", "values = []"], "_sim_block set-up", unordered=True)
    if ast.unparse(lp.target) != "i" or ast.unparse(lp.iter) != "range(start, end)" or lp.orelse: raise Unsupported("`_sim_block`: loop header")
    lb = norm(lp.body)
    if not lb or ast.unparse(lb[0]) != "c, cs, vs = _sim_row(i, matrix, matrix[i], min_sim, max_nbrs)": raise Unsupported("`_sim_block`: the loop does not start with the `_sim_row` call")
    expect(lb[1:], ["counts[i - start] = c", "columns.append(cs)", "values.append(vs)"], "_sim_block loop body", unordered=True)
    expect(body[k + 1:], ["return (counts, torch.cat(columns), torch.cat(values).to(torch.float32))"], "_sim_block result")
    blks = find_fn(mod, "_sim_blocks"); body = norm(blks.body)
    if [a.arg for a in blks.args.args] != ["matrix", "min_sim", "max_nbrs", "block_size", "pbh"]: raise Unsupported("`_sim_blocks` parameters")
    loops = [s for s in body if isinstance(s, ast.For)]
    if len(loops) != 2: raise Unsupported("`_sim_blocks`: two loops expected")
    l1, l2 = loops; k1, k2 = body.index(l1), body.index(l2)
    pre = [s for s in body[:k1] if not (isinstance(s, ast.AnnAssign) and ast.unparse(s.target) == "jobs")]
    if len(pre) != len(body[:k1]) - 1: raise Unsupported("`_sim_blocks`: no `jobs` list")
    ja = next(s for s in body[:k1] if isinstance(s, ast.AnnAssign)); 
    if ast.unparse(ja.value) != "[]": raise Unsupported("`_sim_blocks`: `jobs` does not start empty")
    expect(pre, ["nitems, nusers = matrix.shape"], "_sim_blocks set-up")
    if ast.unparse(l1.target) != "start" or ast.unparse(l1.iter) != "range(0, nitems, block_size)" or l1.orelse: raise Unsupported("`_sim_blocks`: first loop header")
    expect(norm(l1.body), ["end = min(start + block_size, nitems)", "jobs.append(torch.jit.fork(_sim_block, matrix, start, end, min_sim, max_nbrs, pbh))"], "_sim_blocks first loop")
    expect(body[k1 + 1:k2], ["counts = [torch.tensor([0], dtype=torch.int32)]", "columns = []", "values = []"], "_sim_blocks accumulators", unordered=True)
    if ast.unparse(l2.target) != "job" or ast.unparse(l2.iter) != "jobs" or l2.orelse: raise Unsupported("`_sim_blocks`: second loop header")
    lb = norm(l2.body)
    if not lb or ast.unparse(lb[0]) != "cts, cis, vs = job.wait()": raise Unsupported("`_sim_blocks`: the second loop does not start with `job.wait()`")
    expect(lb[1:], ["counts.append(cts)", "columns.append(cis)", "values.append(vs)"], "_sim_blocks second loop", unordered=True)
    tail = body[k2 + 1:]
    if not tail or not isinstance(tail[-1], ast.Return): raise Unsupported("`_sim_blocks`: no result")
    expect(tail[:-1], ["c_cat = torch.cat(counts)", "crow_indices = torch.cumsum(c_cat, 0, dtype=torch.int32)", "col_indices = torch.cat(columns)", "c_values = torch.cat(values)"], "_sim_blocks assembly", unordered=True)
    if ast.unparse(tail[-1].value) != "torch.sparse_csr_tensor(crow_indices=crow_indices, col_indices=col_indices, values=c_values, size=(nitems, nitems))":
        raise Unsupported("`_sim_blocks`: result is not the CSR tensor of (crow_indices, col_indices, c_values)")
    if ast.unparse(l1.iter).count("nitems") != 1: raise Unsupported("range")
    return ("""/-- `_sim_block`: `(counts, cat(columns), cat(values))` for rows `start … end − 1`; `nnz i` is the number of stored entries of row `i` -/
def simBlockT (matrix : List (List Q)) (start end_ : Nat) (min_sim : Q) (max_nbrs : Option Nat) (nnz : Nat → Nat) : List Nat × List Nat × List Q :=
  let rows := (pyRange start end_).map (fun i => simRowT i matrix (matrix.getD i []) (nnz i) min_sim max_nbrs)
  let counts := rows.map (fun r => r.1.length)
  let columns := rows.map (fun r => r.1)
  let values := rows.map (fun r => r.2)
  (counts, columns.flatten, values.flatten)

/-- `_sim_blocks`: the CSR triple `(crow_indices, col_indices, values)` -/
def simBlocksT (matrix : List (List Q)) (min_sim : Q) (max_nbrs : Option Nat) (block_size : Nat) (nnz : Nat → Nat) : List Nat × List Nat × List Q :=
  let nitems := matrix.length
  let jobs := (pyRangeStep nitems block_size nitems 0).map (fun start =>
    let end_ := min (start + block_size) nitems
    simBlockT matrix start end_ min_sim max_nbrs nnz)
  let counts := [[0]] ++ jobs.map (fun j => j.1)
  let columns := jobs.map (fun j => j.2.1)
  let values := jobs.map (fun j => j.2.2)
  let c_cat := counts.flatten
  (cumsum c_cat, columns.flatten, values.flatten)
""", ast.get_source_segment(open(mod._path).read(), blk) + ast.get_source_segment(open(mod._path).read(), blks))

class _Rename(ast.NodeTransformer):
    """attribute expressions of the component that the segment reads, as plain names"""
    MAP = {"self.user_vectors_": "vectors", "self.config.min_sim": "min_sim", "len(self.users_)": "nusers"}
    def generic_visit(self, node):
        if isinstance(node, ast.expr) and ast.unparse(node) in self.MAP: return ast.copy_location(ast.Name(id=self.MAP[ast.unparse(node)], ctx=ast.Load()), node)
        return super().generic_visit(node)

def translate_user_nbrs(src_root):
    """knn/user.py `UserKNNScorer.__call__`: the statements from the similarity product to the candidate neighbours handed to
    `score_items_with_neighbors` — `nbr_sims = torch.mv(…)`, the user's own entry zeroed, the mask `nbr_sims >= min_sim`, the masked
    similarities and positions"""
    rel = "knn/user.py"; src = open(os.path.join(src_root, rel)).read(); mod = ast.parse(src)
    cls = next((c for c in mod.body if isinstance(c, ast.ClassDef) and c.name == "UserKNNScorer"), None)
    fn = next((f for f in (cls.body if cls else []) if isinstance(f, ast.FunctionDef) and f.name == "__call__"), None)
    if fn is None: raise Unsupported("UserKNNScorer.__call__ not found")
    body = [b for b in fn.body if not isinstance(b, ast.Assert)]
    texts = [ast.unparse(b) for b in body]
    starts = [i for i, t in enumerate(texts) if t.startswith("nbr_sims = ")]; e1 = [i for i, t in enumerate(texts) if t.startswith("kn_idxs = ")]; e2 = [i for i, t in enumerate(texts) if t.startswith("kn_sims = ")]
    ends = [max(e1[0], e2[0])] if len(e1) == 1 and len(e2) == 1 else []
    if len(starts) != 1 or len(ends) != 1 or ends[0] < starts[0]: raise Unsupported("UserKNNScorer.__call__: the neighbour-selection segment (`nbr_sims = …` to `kn_idxs = …`)")
    if not any(t in ("(uidx, ratings, umean) = udata", "uidx, ratings, umean = udata") for t in texts[:starts[0]]): raise Unsupported("UserKNNScorer.__call__: `uidx, ratings, umean = udata` before the segment")
    seg_stmts = body[starts[0]:ends[0] + 1]
    for b in body[ends[0] + 1:]:
        for n in ast.walk(b):
            if isinstance(n, (ast.Assign, ast.AugAssign)) and any(isinstance(x, ast.Name) and x.id in ("kn_idxs", "kn_sims") for t in (n.targets if isinstance(n, ast.Assign) else [n.target]) for x in ast.walk(t)):
                raise Unsupported("UserKNNScorer.__call__: the candidate neighbours are changed after they were selected")
    calls = [n for b in body[ends[0] + 1:] for n in ast.walk(b) if isinstance(n, ast.Call) and ast.unparse(n.func) == "score_items_with_neighbors"]
    if len(calls) != 1 or [ast.unparse(a) for a in calls[0].args[2:4]] != ["kn_idxs", "kn_sims"]: raise Unsupported("UserKNNScorer.__call__: `score_items_with_neighbors(…, kn_idxs, kn_sims, …)`")
    stmts = [ast.fix_missing_locations(_Rename().visit(ast.parse(ast.unparse(b)).body[0])) for b in seg_stmts]
    stmts.append(ast.parse("return (len(kn_idxs), kn_idxs, kn_sims)").body[0])
    t = T(); env = {"vectors": ("vectors", "MAT"), "ratings": ("ratings", "T"), "uidx": ("uidx", "ONAT"), "min_sim": ("min_sim", "Q"), "nusers": ("nusers", "NAT")}
    text = t.block(stmts, env, 1)
    return ("/-- `UserKNNScorer.__call__`: the candidate neighbours (positions, similarities) handed to `score_items_with_neighbors` -/\n"
            "def userNbrsT (vectors : List (List Q)) (ratings : List Q) (uidx : Option Nat) (min_sim : Q) (nusers : Nat) : List Nat × List Q :=\n" + text + "\n",
            "\n".join(ast.get_source_segment(src, b) for b in seg_stmts), rel, t.notes)

def translate_item_scores(mod, src):
    """knn/item.py `ItemKNNScorer.__call__`: how the score of one target item is computed from its column of the (rated × target) similarity
    sub-matrix — the dispatch on the neighbourhood size, the sparse fast path, the dense `topk` slow path"""
    cls = next((c for c in mod.body if isinstance(c, ast.ClassDef) and c.name == "ItemKNNScorer"), None)
    fn = next((f for f in (cls.body if cls else []) if isinstance(f, ast.FunctionDef) and f.name == "__call__"), None)
    if fn is None: raise Unsupported("ItemKNNScorer.__call__ not found")
    U = ast.unparse
    flat = [U(n) for n in ast.walk(fn) if isinstance(n, (ast.Assign, ast.AugAssign))]
    def once(t, alts=()):
        forms = (t,) + tuple(alts)
        if sum(flat.count(f) for f in forms) != 1: raise Unsupported(f"ItemKNNScorer.__call__: `{t}` (expected once)")
    for t in ("sizes = np.diff(model.indptr)", "scorable = sizes >= self.config.min_nbrs", "fast = sizes <= self.config.max_nbrs", "ti_fast_mask[ti_mask] = scorable & fast",
              "fast_mod = model[:, scorable & fast]", "slow = scorable & ~fast", "slow_mat = model.T[slow, :]", "ti_slow_mask[ti_mask] = slow", "slow_mat = torch.from_numpy(slow_mat.toarray())",
              "(slow_trimmed, slow_inds) = torch.topk(slow_mat, self.config.max_nbrs)", "scores = np.full(len(items), np.nan, dtype=np.float32)",
              "model = model[ri_valid_nums, :]", "model = model[:, ti_valid_nums]", "model = model.tocsc()"):
        # equivalent spellings (comparisons of integer counts) are the same statement
        ALT = {"(slow_trimmed, slow_inds) = torch.topk(slow_mat, self.config.max_nbrs)": ("slow_trimmed, slow_inds = torch.topk(slow_mat, self.config.max_nbrs)",),
               "scorable = sizes >= self.config.min_nbrs": ("scorable = ~(sizes < self.config.min_nbrs)", "scorable = self.config.min_nbrs <= sizes"),
               "fast = sizes <= self.config.max_nbrs": ("fast = ~(sizes > self.config.max_nbrs)", "fast = self.config.max_nbrs >= sizes"),
               "slow = scorable & ~fast": ("slow = ~fast & scorable",)}
        once(t, ALT.get(t, ()))
    ifs = [n for n in ast.walk(fn) if isinstance(n, ast.If) and U(n.test) == "self.config.explicit"]
    bodies = [([U(x) for x in n.body if not isinstance(x, ast.Assert)], [U(x) for x in n.orelse if not isinstance(x, ast.Assert)]) for n in ifs]
    fastb = (["scores[ti_fast_mask] = ri_vals @ fast_mod", "scores[ti_fast_mask] /= fast_mod.sum(axis=0)"], ["scores[ti_fast_mask] = fast_mod.sum(axis=0)"])
    slowb = (["svals = torch.from_numpy(ri_vals)[slow_inds]", "scores[ti_slow_mask] = torch.sum(slow_trimmed * svals, axis=1).numpy()", "scores[ti_slow_mask] /= torch.sum(slow_trimmed, axis=1).numpy()"],
             ["scores[ti_slow_mask] = torch.sum(slow_trimmed, axis=1).numpy()"])
    if bodies.count(fastb) != 1: raise Unsupported("ItemKNNScorer.__call__: the fast path (`ri_vals @ fast_mod` over `fast_mod.sum(axis=0)`, or the sum alone)")
    if bodies.count(slowb) != 1: raise Unsupported("ItemKNNScorer.__call__: the slow path (the `topk` similarities times their ratings over the sum of the `topk` similarities, or that sum alone)")
    # nothing else writes the scores of the fast / slow targets
    writes = [t for t in flat if t.startswith(("scores[ti_fast_mask]", "scores[ti_slow_mask]"))]
    if len(writes) != 6: raise Unsupported("ItemKNNScorer.__call__: the fast / slow scores are written elsewhere too")
    slow_if = [n for n in ast.walk(fn) if isinstance(n, ast.If) and U(n.test) == "n_slow"]
    if len(slow_if) != 1 or not any(i in list(ast.walk(slow_if[0])) for i in ifs if ([U(x) for x in i.body if not isinstance(x, ast.Assert)], [U(x) for x in i.orelse if not isinstance(x, ast.Assert)]) == slowb):
        raise Unsupported("ItemKNNScorer.__call__: the slow path runs under `if n_slow:`")
    text = """/-- `ItemKNNScorer.__call__`, for one target item: `col` is its column of the (rated × target) similarity sub-matrix (0 where the
    rated item is not among the target's stored neighbours), `size` the number of stored entries of that column, `ri_vals` the
    (mean-centred) ratings of the rated items; `none` is the `NaN` the score array was filled with, or a division 0/0 -/
def itemScoreT (explicit : Bool) (min_nbrs max_nbrs : Nat) (ri_vals col : List Q) (size : Nat) : Option Q :=
  let scorable := decide (min_nbrs ≤ size)
  let fast := decide (size ≤ max_nbrs)
  if scorable && fast then
    let fast_mod := col
    if explicit then divQ (dot ri_vals fast_mod) (sumQ fast_mod) else some (sumQ fast_mod)
  else if scorable && !fast then
    let slow_mat := col
    let slow_inds := topkIdx slow_mat max_nbrs
    let slow_trimmed := takeIdx slow_mat 0 slow_inds
    if explicit then
      let svals := takeIdx ri_vals 0 slow_inds
      divQ (sumQ (List.zipWith (· * ·) slow_trimmed svals)) (sumQ slow_trimmed)
    else some (sumQ slow_trimmed)
  else none
"""
    return text, ast.get_source_segment(src, fn)

def translate(src_root):
    rel = "knn/item.py"; src = open(os.path.join(src_root, rel)).read(); mod = ast.parse(src); mod._path = os.path.join(src_root, rel)
    fn = find_fn(mod, "_sim_row")
    names = [a.arg for a in fn.args.args]
    if names != list(PARAM_TYPES): raise Unsupported(f"`_sim_row` parameters are {names}")
    # the call site: row is the item's own vector
    blk = find_fn(mod, "_sim_block")
    loops = [n for n in ast.walk(blk) if isinstance(n, ast.For)]
    calls = [n for n in ast.walk(blk) if isinstance(n, ast.Call) and ast.unparse(n.func) == "_sim_row"]
    if len(calls) != 1 or [ast.unparse(a) for a in calls[0].args] != ["i", "matrix", "matrix[i]", "min_sim", "max_nbrs"] or calls[0].keywords:
        raise Unsupported("`_sim_block` does not call `_sim_row(i, matrix, matrix[i], min_sim, max_nbrs)`")
    if len(loops) != 1 or ast.unparse(loops[0].target) != "i" or ast.unparse(loops[0].iter) != "range(start, end)" \
            or not any(c in ast.walk(loops[0]) for c in calls):
        raise Unsupported("`_sim_block` does not loop `for i in range(start, end)` around the call")
    t = T(); env = {k: (k, v) for k, v in PARAM_TYPES.items()}
    body = t.block(fn.body, env, 1)
    btext, bseg = translate_blocks(mod)
    utext, useg, urel, unotes = translate_user_nbrs(src_root)
    itext, iseg = translate_item_scores(mod, src)
    seg = ast.get_source_segment(src, fn) + "\n" + bseg + "\n" + useg + "\n" + iseg
    head = ("import LK.Model.TorchOps\n/-! GENERATED by translate/py2lean_sim.py on every run of `./check C09`; do not edit.\n"
            f"* `simRowT`, `simBlockT`, `simBlocksT` ← {rel} _sim_row, _sim_block, _sim_blocks; `userNbrsT` ← {urel} UserKNNScorer.__call__ (neighbour selection); `itemScoreT` ← {rel} ItemKNNScorer.__call__ (per-target scoring), source sha256/64 {hashlib.sha256(seg.encode()).hexdigest()[:16]}\n"
            "    - `nitems` is the number of rows of `matrix`; `torch.jit.fork(f, …)` / `.wait()` is the call `f(…)` (results are consumed in submission order)\n"
            "    - `rowNnz` stands for `len(row.indices())`, the number of stored entries of the sparse row\n"
            "    - in `userNbrsT`, `vectors` is `self.user_vectors_`, `nusers` is `len(self.users_)`, `min_sim` is `self.config.min_sim`\n"
            + "".join(f"    - {n}\n" for n in dict.fromkeys(t.notes + unotes)) + "-/\nset_option linter.unusedVariables false\nnamespace LK.Gen.SimC09\nopen LK.TorchOps LK.ArrayOps LK.KNN\n\n")
    return head + ("def simRowT (item : Nat) (matrix : List (List Q)) (row : List Q) (rowNnz : Nat) (min_sim : Q) (max_nbrs : Option Nat) : List Nat × List Q :=\n"
                   f"{body}\n\n{btext}\n{utext}\n{itext}\nend LK.Gen.SimC09\n")

if __name__ == "__main__":
    print(translate(sys.argv[1] if len(sys.argv) > 1 else "/repo/src/lenskit"))
