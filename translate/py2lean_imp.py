"""Translate `BiasModel.compute_for_items` — straight-line NumPy statements under `if` / `elif` with `None` tests — into Lean (C08).

A small typed translator: every Python variable has one of the types
  Q (a number)   A (an array of numbers)   I (an array of item numbers, −1 for unknown)   M (a boolean mask)
  OQ / OA / ON (a number / array / row number that may be `None`)   B (a truth value)
and source expressions listed in `ATOMS` become parameters of the generated function.  `if X is not None:` on an optional
value becomes a `match` that refines the variable in the branch where it is present; a condition that is statically known (a variable
just set to `None`) selects its branch at translation time.  Statements after an `if` are continued in both branches (so the types of
the two branches need not agree).  The function's two shapes of result (`scores + bias`, or `(scores, user_bias)`) are rendered as
`(array, none)` and `(array, some user_bias)`.

NumPy semantics assumed (recorded in the generated file): numbers are exact rationals — there is no NaN, `np.isfinite` is true
everywhere and `x / 0 = 0`, which is what the code's own `if np.isnan(user_bias): user_bias = 0` produces for the one division whose
denominator can vanish (an empty history with zero damping).
"""
import ast, hashlib, os, sys

class Unsupported(Exception): pass

ATOMS = {   # source text → (Lean term, type)
    "len(items)": ("inums.length", "N"),
    "self.global_bias": ("g", "Q"),
    "self.item_biases": ("ib", "OA"), "self.users": ("usersPresent", "PRES"), "self.user_biases": ("ub", "A"),
    "items.numbers(vocabulary=self.items, missing='negative')": ("inums", "I"),
    "user_items.numbers(vocabulary=self.items, missing='negative')": ("hnums", "I"),
    "user_items": ("histPresent", "PRES"), "user_items.field('rating')": ("hratings", "OA"),
    "bias": ("bias", "OQ"), "user_id": ("uidPresent", "PRES"),
    "self.users.number(user_id, missing='none')": ("uno", "ON"),
    "entity_damping(self.damping, 'user')": ("dampU", "Q"),
    "np.log(rng.uniform(0, 1, N))": ("logu", "A"), "np.finfo('f4').smallest_normal": ("eps", "Q"), "self.config.scale": ("scale", "Q"),
}
PARAMS = ("(g : Q) (ib : Option (List Q)) (usersPresent : Bool) (ub : List Q) (dampU : Q) (inums : List Int) (bias : Option Q) "
          "(histPresent : Bool) (hratings : Option (List Q)) (hnums : List Int) (uidPresent : Bool) (uno : Option Nat)")

class T:
    def __init__(self): self.notes = []; self.fresh = 0
    def atom(self, e):
        return ATOMS.get(ast.unparse(e))
    def val(self, e, env):
        """(Lean term, type)"""
        if isinstance(e, ast.Name) and e.id in env: return env[e.id]
        a = self.atom(e)
        if a: return a
        if isinstance(e, ast.Constant):
            if e.value is None: return ("none", "NONE")
            if isinstance(e.value, (int, float)) and float(e.value) == int(e.value): return (f"({int(e.value)} : Q)", "Q")
        if isinstance(e, ast.Call):
            f = ast.unparse(e.func)
            if f == "np.full" and len(e.args) == 2:
                n, c = self.val(e.args[0], env), self.val(e.args[1], env)
                if n[1] == "N" and c[1] == "Q": return (f"(npFull {n[0]} {c[0]})", "A")
            if f == "np.maximum" and len(e.args) == 2:
                a_, c_ = self.val(e.args[0], env), self.val(e.args[1], env)
                if a_[1] == "A" and c_[1] == "Q": return (f"(npMaximumScalar {a_[0]} {c_[0]})", "A")
            if f == "argtopn" and len(e.args) == 2:
                a_, n_ = self.val(e.args[0], env), self.val(e.args[1], env)
                if a_[1] == "A" and n_[1] == "INT": return (f"(LK.TopN.argtopn (({a_[0]}).map some) {n_[0]})", "POS")
            if f == "np.sum" and len(e.args) == 1:
                inner = e.args[0]
                if isinstance(inner, ast.Call) and ast.unparse(inner.func) == "np.isfinite":
                    a_ = self.val(inner.args[0], env)
                    if a_[1] == "A":
                        self.notes.append(f"line {e.lineno}: `{ast.unparse(e)}` counts every entry (exact rationals are finite)")
                        return (f"(({a_[0]}).length : Q)", "Q")
                a_ = self.val(inner, env)
                if a_[1] == "A": return (f"(npSum {a_[0]})", "Q")
        if isinstance(e, ast.Call) and isinstance(e.func, ast.Attribute) and e.func.attr == "item" and not e.args and isinstance(e.func.value, ast.Call) \
                and ast.unparse(e.func.value.func) in ("np.min", "np.max") and len(e.func.value.args) == 1:
            a_ = self.val(e.func.value.args[0], env)
            if a_[1] == "A": return (f"(np{ast.unparse(e.func.value.func)[3:].capitalize()} {a_[0]})", "Q")
        if isinstance(e, ast.Call) and ast.unparse(e.func) == "np.ones_like" and len(e.args) == 1:
            a_ = self.val(e.args[0], env)
            if a_[1] == "A": return (f"(npOnesLike {a_[0]})", "A")
        if isinstance(e, ast.Call) and ast.unparse(e.func) == "len" and len(e.args) == 1 and isinstance(e.args[0], ast.Name) and env.get(e.args[0].id, ("", ""))[1] == "A":
            return (f"((({env[e.args[0].id][0]}).length : Nat) : Q)", "Q")
        if isinstance(e, ast.BinOp):
            l, r = self.val(e.left, env), self.val(e.right, env)
            if isinstance(e.op, ast.Sub) and l[1] == "Q" and r[1] == "Q": return (f"({l[0]} - {r[0]})", "Q")
            if isinstance(e.op, ast.Div) and l[1] == "A" and r[1] == "Q": return (f"(npDivScalar {l[0]} {r[0]})", "A")
            if isinstance(e.op, ast.Sub) and l[1] == "A" and r[1] == "Q": return (f"(npSubScalar {l[0]} {r[0]})", "A")
            if isinstance(e.op, ast.Add) and l[1] == "A" and r[1] == "Q": return (f"(npAddScalar {l[0]} {r[0]})", "A")
            if isinstance(e.op, ast.Mult) and l[1] == "A" and r[1] == "Q": return (f"(npMulScalar {l[0]} {r[0]})", "A")
            if isinstance(e.op, ast.Add) and l[1] == "Q" and r[1] == "Q": return (f"({l[0]} + {r[0]})", "Q")
            if isinstance(e.op, ast.Div) and l[1] == "Q" and r[1] == "Q":
                self.notes.append(f"line {e.lineno}: `/` is exact division with x / 0 = 0 (NumPy: 0 / 0 = NaN, replaced by 0 by the code's own NaN test)")
                return (f"({l[0]} / {r[0]})", "Q")
        if isinstance(e, ast.Compare) and len(e.ops) == 1 and isinstance(e.ops[0], ast.GtE) and ast.unparse(e.comparators[0]) == "0":
            l = self.val(e.left, env)
            if l[1] == "I": return (f"(geZero {l[0]})", "M")
        if isinstance(e, ast.Subscript):
            b = self.val(e.value, env); i = self.val(e.slice, env)
            if b[1] == "I" and i[1] == "M": return (f"(indexMask {b[0]} {i[0]})", "I")          # x[mask]
            if b[1] == "A" and i[1] == "M": return (f"(LK.ArrayOps.indexMask {b[0]} {i[0]})", "A")          # a[mask]
            if b[1] == "A" and i[1] == "I": return (f"(npGatherInt {b[0]} {i[0]})", "A")          # table[idx]
            if b[1] == "A" and i[1] == "NAT": return (f"(({b[0]}).getD {i[0]} 0)", "Q")            # table[row]
        raise Unsupported(f"line {getattr(e, 'lineno', '?')}: expression `{ast.unparse(e)}`")

    def block(self, stmts, env, ind):
        pad = "  " * ind
        if not stmts:
            fv = getattr(self, "final_var", None)
            if fv and env.get(fv, ("", ""))[1] == "A": return f"{pad}{env[fv][0]}"
            raise Unsupported("function ends without a return" if not fv else f"`{fv}` is not an array at the end of the block")
        s, rest = stmts[0], list(stmts[1:])
        if isinstance(s, ast.Expr) and isinstance(s.value, ast.Constant): return self.block(rest, env, ind)
        if isinstance(s, ast.Assert): return self.block(rest, env, ind)
        if isinstance(s, ast.Expr) and isinstance(s.value, ast.Call) and ast.unparse(s.value.func).startswith(("_logger.", "_log.")): return self.block(rest, env, ind)
        if isinstance(s, ast.Return):
            v = s.value
            # ItemList(valid_items[picked], ordered=True): the positions picked, in order
            if isinstance(v, ast.Call) and ast.unparse(v.func) == "ItemList" and len(v.args) == 1 and isinstance(v.args[0], ast.Subscript) \
                    and {k.arg: ast.unparse(k.value) for k in v.keywords} == {"ordered": "True"} and ast.unparse(v.args[0].value) == "valid_items":
                p_ = self.val(v.args[0].slice, env)
                if p_[1] == "POS": return f"{pad}{p_[0]}"
            if isinstance(v, ast.Tuple) and len(v.elts) == 2:
                a, b = self.val(v.elts[0], env), self.val(v.elts[1], env)
                if a[1] == "A" and b[1] == "Q": return f"{pad}({a[0]}, some {b[0]})"
            else:
                a = self.val(v, env)
                if a[1] == "A": return f"{pad}({a[0]}, none)"
            raise Unsupported(f"line {s.lineno}: return `{ast.unparse(v)}`")
        if isinstance(s, ast.Assign) and len(s.targets) == 1:
            t, v = s.targets[0], s.value
            if isinstance(t, ast.Name):
                term, ty = self.val(v, env)
                if ty in ("NONE", "OA", "OQ", "ON", "PRES"):          # optional values are not copied into a `let`: the variable stands for the term
                    return self.block(rest, {**env, t.id: (term, ty)}, ind)
                self.fresh += 1; nm = f"{t.id}"
                return f"{pad}let {nm} := {term}\n" + self.block(rest, {**env, t.id: (nm, ty)}, ind)
            raise Unsupported(f"line {s.lineno}: {ast.unparse(s)[:80]}")
        if isinstance(s, ast.AugAssign) and isinstance(s.op, ast.Div) and isinstance(s.target, ast.Name) and env.get(s.target.id, ("", ""))[1] == "A":
            r = self.val(s.value, env)
            if r[1] == "Q": return f"{pad}let {s.target.id} := npDivScalar {env[s.target.id][0]} {r[0]}\n" + self.block(rest, {**env, s.target.id: (s.target.id, "A")}, ind)
            if r[1] == "A": return f"{pad}let {s.target.id} := npDiv {env[s.target.id][0]} {r[0]}\n" + self.block(rest, {**env, s.target.id: (s.target.id, "A")}, ind)
        if isinstance(s, ast.AugAssign) and isinstance(s.op, (ast.Add, ast.Sub)):
            op = "Add" if isinstance(s.op, ast.Add) else "Sub"
            t = s.target
            if isinstance(t, ast.Name) and env.get(t.id, ("", ""))[1] == "A":
                r = self.val(s.value, env)
                if r[1] == "Q": return f"{pad}let {t.id} := np{op}Scalar {env[t.id][0]} {r[0]}\n" + self.block(rest, {**env, t.id: (t.id, "A")}, ind)
                if r[1] == "A": return f"{pad}let {t.id} := np{op} {env[t.id][0]} {r[0]}\n" + self.block(rest, {**env, t.id: (t.id, "A")}, ind)
            if isinstance(t, ast.Subscript) and isinstance(t.value, ast.Name) and env.get(t.value.id, ("", ""))[1] == "A":
                m = self.val(t.slice, env); r = self.val(s.value, env)
                if m[1] == "M" and r[1] == "A":
                    x = t.value.id
                    return f"{pad}let {x} := np{op}Mask {env[x][0]} {m[0]} {r[0]}\n" + self.block(rest, {**env, x: (x, "A")}, ind)
            raise Unsupported(f"line {s.lineno}: {ast.unparse(s)[:80]}")
        if isinstance(s, ast.If):
            return self.cond(s.test, s.body, s.orelse, rest, env, ind, s.lineno)
        raise Unsupported(f"line {s.lineno}: {ast.unparse(s)[:80]}")

    def cond(self, test, body, orelse, rest, env, ind, lineno):
        pad = "  " * ind
        # np.isnan(x) on an exact rational: never true
        if isinstance(test, ast.Call) and ast.unparse(test.func) == "np.isnan":
            self.notes.append(f"line {lineno}: `{ast.unparse(test)}` is never true of an exact rational (see the note on division)")
            return self.block(list(orelse) + rest, env, ind)
        if isinstance(test, ast.Compare) and len(test.ops) == 1 and isinstance(test.ops[0], (ast.Is, ast.IsNot)) and ast.unparse(test.comparators[0]) == "None":
            pos = isinstance(test.ops[0], ast.IsNot)
            term, ty = self.val(test.left, env)
            present, absent = (body, orelse) if pos else (orelse, body)
            if ty == "NONE": return self.block(list(absent) + rest, env, ind)          # statically None
            if ty in ("A", "Q", "I"): return self.block(list(present) + rest, env, ind)   # statically present
            if ty == "PRES":
                return (f"{pad}if {term} then\n" + self.block(list(present) + rest, env, ind + 1) + f"\n{pad}else\n" + self.block(list(absent) + rest, env, ind + 1))
            if ty in ("OA", "OQ", "ON"):
                inner = {"OA": "A", "OQ": "Q", "ON": "NAT"}[ty]
                self.fresh += 1; nm = f"v{self.fresh}"
                # refine: inside the `some` branch every variable (and atom) that stood for the optional term now stands for its content
                env_p = {k: ((nm, inner) if v == (term, ty) else v) for k, v in env.items()}
                key = next((k for k, v in ATOMS.items() if v == (term, ty)), None)
                saved = ATOMS.get(key) if key else None
                if key: ATOMS[key] = (nm, inner)
                try: th = self.block(list(present) + rest, env_p, ind + 2)
                finally:
                    if key: ATOMS[key] = saved
                if key: ATOMS[key] = ("none", "NONE")
                try: el = self.block(list(absent) + rest, {k: (("none", "NONE") if v == (term, ty) else v) for k, v in env.items()}, ind + 2)
                finally:
                    if key: ATOMS[key] = saved
                return f"{pad}match {term} with\n{pad}  | some {nm} =>\n{th}\n{pad}  | none =>\n{el}"
        if isinstance(test, ast.Compare) and len(test.ops) == 1 and isinstance(test.ops[0], ast.Gt) and ast.unparse(test.comparators[0]) == "0":
            a_ = self.val(test.left, env)
            if a_[1] == "Q":
                return (f"{pad}if {a_[0]} > 0 then\n" + self.block(list(body) + rest, env, ind + 1) + f"\n{pad}else\n" + self.block(list(orelse) + rest, env, ind + 1))
        raise Unsupported(f"line {lineno}: test `{ast.unparse(test)}`")

def translate(src_root):
    rel = "basic/bias.py"; src = open(os.path.join(src_root, rel)).read(); mod = ast.parse(src)
    cls = next(c for c in mod.body if isinstance(c, ast.ClassDef) and c.name == "BiasModel")
    fn = [m for m in cls.body if isinstance(m, ast.FunctionDef) and m.name == "compute_for_items"][-1]
    t = T(); body = t.block(fn.body, {}, 1)
    seg = ast.get_source_segment(src, fn)
    head = ("import LK.Model.NpOps\nimport LK.Model.ArrayOps\n/-! GENERATED by translate/py2lean_imp.py on every run of `./check C08`; do not edit.\n"
            f"* `computeForItems` ← {rel} BiasModel.compute_for_items, source sha256/64 {hashlib.sha256(seg.encode()).hexdigest()[:16]}\n"
            + "".join(f"    - {n}\n" for n in dict.fromkeys(t.notes)) + "-/\nset_option linter.unusedVariables false\nnamespace LK.Gen.ImpC08\nopen LK.NpOps LK.ArrayOps\n\n")
    return head + f"def computeForItems {PARAMS} : List Q × Option Q :=\n{body}\n\nend LK.Gen.ImpC08\n"

def translate_linear(src_root):
    """the `linear` transform of `StochasticTopNRanker.__call__` (stochastic/_ranker.py): scores → selection weights"""
    rel = "stochastic/_ranker.py"; src = open(os.path.join(src_root, rel)).read(); mod = ast.parse(src)
    cls = next(c for c in mod.body if isinstance(c, ast.ClassDef) and c.name == "StochasticTopNRanker")
    fn = [m for m in cls.body if isinstance(m, ast.FunctionDef) and m.name == "__call__"][-1]
    mt = next((n for n in ast.walk(fn) if isinstance(n, ast.Match) and ast.unparse(n.subject) == "self.config.transform"), None)
    if mt is None: raise Unsupported("no `match self.config.transform`")
    case = next((c for c in mt.cases if isinstance(c.pattern, ast.MatchValue) and isinstance(c.pattern.value, ast.Constant) and c.pattern.value.value == "linear"), None)
    if case is None: raise Unsupported("no `linear` case")
    t = T(); t.final_var = "weights"
    body = t.block(list(case.body), {"scores": ("scores", "A")}, 1)
    seg = ast.get_source_segment(src, mt)
    # the statements after the `match`: exponential-race keys from the weights, the n best positions
    k = next((i for i, st in enumerate(fn.body) if st is mt), None)
    if k is None: raise Unsupported("the `match` is not a top-level statement of __call__")
    # the statement before the `match`: the scores every transform starts from (finite ones, times the configured scale)
    if k == 0 or not (isinstance(fn.body[k - 1], ast.Assign) and ast.unparse(fn.body[k - 1].targets[0]) == "scores"):
        raise Unsupported("the statement before the `match` does not bind `scores`")
    t0 = T(); t0.final_var = "scores"
    head_body = t0.block([fn.body[k - 1]], {"scores": ("scores", "A"), "valid_mask": ("valid", "M")}, 1)
    seg = seg + "\n" + ast.get_source_segment(src, fn.body[k - 1])
    head_def = ("/-- the scores handed to the transform: those under the validity mask, times the configured scale -/\n"
                f"def scaledScoresT (scores : List Q) (valid : List Bool) (scale : Q) : List Q :=\n{head_body}\n\n")
    t2 = T()
    tail = t2.block(list(fn.body[k + 1:]), {"weights": ("weights", "A"), "n": ("n", "INT")}, 1)
    seg = seg + "\n" + "\n".join(ast.get_source_segment(src, st) for st in fn.body[k + 1:])
    t.notes += t2.notes
    tail_def = ("/-- the statements after the `match`: `logu` stands for `np.log(rng.uniform(0, 1, N))`, `eps` for the smallest normal float32;\n"
                "    the result is the list of picked positions (into the finite-score items), best first -/\n"
                f"def pickT (logu : List Q) (weights : List Q) (eps : Q) (n : Int) : List Nat :=\n{tail}\n\n")
    return ("import LK.Model.NpOps\nimport LK.Model.ArrayOps\nimport LK.Model.Stochastic\n/-! GENERATED by translate/py2lean_imp.py on every run of `./check C19`; do not edit.\n"
            f"* `linearWeightsT`, `scaledScoresT`, `pickT` ← {rel} StochasticTopNRanker.__call__ (the `linear` case; the statement before and the statements after the `match`), source sha256/64 {hashlib.sha256(seg.encode()).hexdigest()[:16]}\n"
            + "".join(f"    - {n}\n" for n in dict.fromkeys(t.notes)) + "-/\nset_option linter.unusedVariables false\nnamespace LK.Gen.ImpC19\nopen LK.NpOps\n\n"
            f"def linearWeightsT (scores : List Q) : List Q :=\n{body}\n\n" + head_def + tail_def + "end LK.Gen.ImpC19\n")

if __name__ == "__main__":
    if len(sys.argv) > 1 and sys.argv[1] == "linear": print(translate_linear(sys.argv[2] if len(sys.argv) > 2 else "/repo/src/lenskit")); sys.exit(0)
    print(translate(sys.argv[1] if len(sys.argv) > 1 else "/repo/src/lenskit"))
