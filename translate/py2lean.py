"""Translate a small, straight-line/if-else integer subset of Python functions into Lean 4 definitions.

Supported: module-level integer constants; parameters are `Nat`; assignments to local names; `if/else`
(also without else); `return cls(a, b, c)` / `return (a, b, c)` / `return expr`; expressions over
+ - * // %, comparisons, `max`/`min`, `int(math.ceil(a / b))` (→ exact ceiling division, recorded as an
assumption: operands below 2^53 so that the float division is exact enough), integer literals.
Anything else raises `Unsupported` — the check then reports the translation obligation as broken.
"""
import ast, sys, hashlib, textwrap

class Unsupported(Exception): pass

class Tx:
    def __init__(self, src, consts):
        self.src = src; self.consts = consts; self.assumptions = []

    def expr(self, e):
        if isinstance(e, ast.Constant) and isinstance(e.value, int) and not isinstance(e.value, bool): return str(e.value)
        if isinstance(e, ast.Name): return e.id
        if isinstance(e, ast.BinOp):
            l, r = self.expr(e.left), self.expr(e.right)
            op = {ast.Add: "+", ast.Sub: "-", ast.Mult: "*", ast.FloorDiv: "/", ast.Mod: "%"}.get(type(e.op))
            if op is None: raise Unsupported(ast.dump(e.op))
            if op == "-": self.assumptions.append(f"truncated subtraction at line {e.lineno}: Python `-` on ints may go negative")
            return f"({l} {op} {r})"
        if isinstance(e, ast.Call):
            f = e.func
            if isinstance(f, ast.Name) and f.id in ("max", "min") and len(e.args) == 2:
                return f"({f.id} {self.expr(e.args[0])} {self.expr(e.args[1])})"
            if isinstance(f, ast.Name) and f.id == "int" and len(e.args) == 1:
                a = e.args[0]
                if (isinstance(a, ast.Call) and isinstance(a.func, ast.Attribute) and a.func.attr == "ceil"
                        and isinstance(a.args[0], ast.BinOp) and isinstance(a.args[0].op, ast.Div)):
                    n, d = self.expr(a.args[0].left), self.expr(a.args[0].right)
                    self.assumptions.append(f"line {e.lineno}: int(math.ceil({n} / {d})) taken as exact ceiling division (operands < 2^53, divisor > 0)")
                    return f"(({n} + {d} - 1) / {d})"
            raise Unsupported(ast.dump(e))
        raise Unsupported(ast.dump(e))

    def cond(self, e):
        if isinstance(e, ast.Compare) and len(e.ops) == 1:
            op = {ast.Lt: "<", ast.LtE: "≤", ast.Gt: ">", ast.GtE: "≥", ast.Eq: "=", ast.NotEq: "≠"}.get(type(e.ops[0]))
            if op is None: raise Unsupported(ast.dump(e))
            return f"{self.expr(e.left)} {op} {self.expr(e.comparators[0])}"
        raise Unsupported(ast.dump(e))

    def assigned(self, stmts):
        out = []
        for s in stmts:
            if isinstance(s, ast.Assign):
                for t in s.targets:
                    if not isinstance(t, ast.Name): raise Unsupported(ast.dump(t))
                    if t.id not in out: out.append(t.id)
            elif isinstance(s, ast.If):
                for v in self.assigned(s.body) + self.assigned(s.orelse):
                    if v not in out: out.append(v)
        return out

    def block(self, stmts, live, tail, ind):
        """Translate statements; `tail` is the Lean expression text to put after them (None ⇒ must end in return)."""
        pad = "  " * ind
        if not stmts:
            if tail is None: raise Unsupported("missing return")
            return pad + tail
        s, rest = stmts[0], stmts[1:]
        if isinstance(s, ast.Expr) and isinstance(s.value, ast.Constant) and isinstance(s.value.value, str):
            return self.block(rest, live, tail, ind)            # docstring
        if isinstance(s, ast.Assign):
            (t,) = s.targets
            return f"{pad}let {t.id} := {self.expr(s.value)}\n" + self.block(rest, live | {t.id}, tail, ind)
        if isinstance(s, ast.Return):
            v = s.value
            if isinstance(v, ast.Call) and isinstance(v.func, ast.Name) and v.func.id == "cls":
                return pad + "(" + ", ".join(self.expr(a) for a in v.args) + ")"
            if isinstance(v, ast.Tuple): return pad + "(" + ", ".join(self.expr(a) for a in v.elts) + ")"
            return pad + self.expr(v)
        if isinstance(s, ast.If):
            vs = self.assigned([s])
            if any(isinstance(x, ast.Return) for x in ast.walk(s)): raise Unsupported("return inside if")
            for v in vs:
                if v not in live and (v not in self.assigned(s.body) or v not in self.assigned(s.orelse)):
                    raise Unsupported(f"{v} may be unbound after if at line {s.lineno}")
            tup = vs[0] if len(vs) == 1 else "(" + ", ".join(vs) + ")"
            th = self.block(s.body, live, tup, ind + 2)
            el = self.block(s.orelse, live, tup, ind + 2)
            return (f"{pad}let {tup} :=\n{pad}  if {self.cond(s.test)} then\n{th}\n{pad}  else\n{el}\n"
                    + self.block(rest, live | set(vs), tail, ind))
        raise Unsupported(ast.dump(s))

def translate(path, cls_name, fn_name, lean_name, namespace):
    src = open(path).read(); mod = ast.parse(src)
    consts = {}
    for s in mod.body:
        if isinstance(s, ast.Assign) and isinstance(s.value, ast.Constant) and isinstance(s.value.value, int):
            consts[s.targets[0].id] = s.value.value
    fn = None
    for s in mod.body:
        if isinstance(s, ast.ClassDef) and s.name == cls_name:
            for m in s.body:
                if isinstance(m, ast.FunctionDef) and m.name == fn_name: fn = m
    if fn is None: raise Unsupported(f"{cls_name}.{fn_name} not found")
    params = [a.arg for a in fn.args.args if a.arg not in ("cls", "self")]
    tx = Tx(src, consts)
    body = tx.block(fn.body, set(params) | set(consts), None, 1)
    nret = None
    for n in ast.walk(fn):
        if isinstance(n, ast.Return):
            v = n.value; nret = len(v.args) if isinstance(v, ast.Call) else (len(v.elts) if isinstance(v, ast.Tuple) else 1)
    rty = " × ".join(["Nat"] * nret)
    seg = ast.get_source_segment(src, fn)
    digest = hashlib.sha256((seg + repr(sorted(consts.items()))).encode()).hexdigest()
    out = [f"/-! GENERATED by translate/py2lean.py from `{path.split('/src/')[-1]}` ({cls_name}.{fn_name}); do not edit.",
           f"source sha256: {digest}", "assumptions:"] + [f"  * {a}" for a in tx.assumptions] + ["-/", f"namespace {namespace}", ""]
    for k, v in consts.items(): out.append(f"def {k} : Nat := {v}")
    out += ["", f"def {lean_name} " + " ".join(f"({p} : Nat)" for p in params) + f" : {rty} :=", body, "", f"end {namespace}", ""]
    return "\n".join(out)

if __name__ == "__main__":
    repo = sys.argv[1] if len(sys.argv) > 1 else "/repo"
    print(translate(f"{repo}/src/lenskit/parallel/chunking.py", "WorkChunks", "create", "chunkCreate", "LK.Gen.Chunking"))
