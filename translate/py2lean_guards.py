"""Translate the *decision logic* of selected lenskit functions into Lean 4 definitions over `LK.Py.V` (= `Option Int`).

Four modes (plus `ifvar`, `copy` and `order`, described where they are implemented), all driven by a table of *atoms* (source expressions, matched by their unparsed text, that become parameters):
  var     the value a tracked variable has after the top-level statements of a function that assign it
          (`if` statements are followed when they assign the variable or leave the function early; other statements are skipped)
  fn      the value a (small) function returns
  assign  the right-hand side of the one assignment to a variable, wherever it is nested
  branch  which branch of an `if / elif / else` chain is taken (0, 1, …), the chain being found by a text its first test contains
Expressions: atoms, `None`, integer literals, `a or b`, `a and b`, `min` / `max`, conditional expressions; tests: `is None`,
`is not None`, comparisons, `and` / `or` / `not`, and bare truthiness.  Anything else raises `Unsupported`: the check then treats
the obligation as broken (and searches for a failing input).
"""
import ast, hashlib, os, sys, textwrap

class Unsupported(Exception): pass

class G:
    def __init__(self, atoms):
        self.atoms = atoms; self.assumptions = []; self.used = set()

    def atom(self, e):
        t = ast.unparse(e)
        if t in self.atoms:
            self.used.add(t); return self.atoms[t]
        return None

    def val(self, e):
        if getattr(self, "tracked", None) and ast.unparse(e) == self.tracked[0]: return self.tracked[1]
        a = self.atom(e)
        if a:
            name, kind = a
            if kind == "opt": return name
            if kind == "int": return f"(some {name})"
            if kind == "const": return f"(some ({name}))"          # a call whose identity (text, arguments included) is the outcome: a path code
            if kind == "local": return name                       # an expression that merely passes a translated local variable on
            raise Unsupported(f"boolean atom {name} used as a value")
        if isinstance(e, ast.Constant):
            if e.value is None: return "none"
            if isinstance(e.value, int) and not isinstance(e.value, bool): return f"(some ({e.value}))"
            if isinstance(e.value, float) and e.value == int(e.value): return f"(some ({int(e.value)}))"          # 0.0, 1.0: the number
        if isinstance(e, ast.UnaryOp) and isinstance(e.op, ast.USub) and isinstance(e.operand, ast.Constant) and isinstance(e.operand.value, int):
            return f"(some (-{e.operand.value}))"
        if isinstance(e, ast.BoolOp):
            f = "LK.Py.por" if isinstance(e.op, ast.Or) else "LK.Py.pand"
            out = self.val(e.values[-1])
            for v in reversed(e.values[:-1]): out = f"({f} {self.val(v)} {out})"
            return out
        if isinstance(e, ast.Call) and isinstance(e.func, ast.Name) and e.func.id in ("min", "max") and len(e.args) == 2 and not e.keywords:
            return f"(LK.Py.p{e.func.id} {self.val(e.args[0])} {self.val(e.args[1])})"
        if isinstance(e, ast.IfExp):
            return f"(if {self.cond(e.test)} then {self.val(e.body)} else {self.val(e.orelse)})"
        raise Unsupported("value: " + ast.unparse(e))

    def cond(self, e):
        a = self.atom(e)
        if a and a[1] == "bool": return a[0]
        if isinstance(e, ast.Compare) and len(e.ops) > 1:          # a < b <= c  ≡  a < b and b <= c (the operands here have no side effects)
            terms = [e.left] + list(e.comparators)
            return "(" + " && ".join(self.cond(ast.Compare(left=terms[i], ops=[e.ops[i]], comparators=[terms[i + 1]], lineno=e.lineno, col_offset=e.col_offset)) for i in range(len(e.ops))) + ")"
        if isinstance(e, ast.Compare) and len(e.ops) == 1:
            op, l, r = e.ops[0], e.left, e.comparators[0]
            if isinstance(op, (ast.Is, ast.IsNot)):
                if not (isinstance(r, ast.Constant) and r.value is None): raise Unsupported("test: " + ast.unparse(e))
                return f"({self.val(l)}).isNone" if isinstance(op, ast.Is) else f"({self.val(l)}).isSome"
            f = {ast.Lt: "LK.Py.lt", ast.LtE: "LK.Py.le", ast.Gt: "LK.Py.gt", ast.GtE: "LK.Py.ge"}.get(type(op))
            if f:
                self.assumptions.append(f"line {e.lineno}: `{ast.unparse(e)}` is total here (false when an operand is None; Python would raise)")
                return f"({f} {self.val(l)} {self.val(r)})"
            if isinstance(op, ast.Eq): return f"({self.val(l)} == {self.val(r)})"
            if isinstance(op, ast.NotEq): return f"({self.val(l)} != {self.val(r)})"
            raise Unsupported("test: " + ast.unparse(e))
        if isinstance(e, ast.BoolOp):
            j = " || " if isinstance(e.op, ast.Or) else " && "
            return "(" + j.join(self.cond(v) for v in e.values) + ")"
        if isinstance(e, ast.UnaryOp) and isinstance(e.op, ast.Not): return f"(!{self.cond(e.operand)})"
        return f"(LK.Py.truthy {self.val(e)})"          # bare truthiness

    # -- statements -------------------------------------------------------------------------------------------------
    @staticmethod
    def stores(node, var):
        for n in ast.walk(node):
            if isinstance(n, ast.Assign) and any(ast.unparse(t) == var for t in n.targets): return True
            if isinstance(n, (ast.AugAssign, ast.AnnAssign)) and ast.unparse(n.target) == var: return True
        return False

    def block(self, stmts, var, cur, ind):
        pad = "  " * ind
        if not stmts:
            if var is None: raise Unsupported("function may end without a return")
            return pad + cur
        s, rest = stmts[0], stmts[1:]
        if isinstance(s, ast.Expr) and isinstance(s.value, ast.Constant) and isinstance(s.value.value, str): return self.block(rest, var, cur, ind)
        if isinstance(s, ast.Return):
            if var is None:
                if s.value is None: return pad + "none"
                return pad + self.val(s.value)
            return pad + cur
        if var is not None and isinstance(s, ast.Assign) and len(s.targets) == 1 and ast.unparse(s.targets[0]) == var:
            return f"{pad}let {cur} := {self.val(s.value)}\n" + self.block(rest, var, cur, ind)
        if isinstance(s, ast.If):
            leaves = any(isinstance(x, ast.Return) for x in ast.walk(s))
            relevant = var is None or self.stores(s, var) or leaves
            if relevant:
                try: c = self.cond(s.test)
                except Unsupported:
                    if var is None or self.stores(s, var): raise
                    self.assumptions.append(f"line {s.lineno}: early exit under `{ast.unparse(s.test)}` does not concern `{var}` and is not modelled")
                    return self.block(rest, var, cur, ind)
                th = self.block(list(s.body) + list(rest), var, cur, ind + 1)
                el = self.block(list(s.orelse) + list(rest), var, cur, ind + 1)
                return f"{pad}if {c} then\n{th}\n{pad}else\n{el}"
            return self.block(rest, var, cur, ind)
        if isinstance(s, ast.Raise):
            if var is None:
                self.assumptions.append(f"line {s.lineno}: `raise` is rendered as the value none")
                return pad + "none"
            raise Unsupported(f"raise on a modelled path at line {s.lineno}")
        if var is None:
            # whole-function mode: local variables with translatable right-hand sides are followed; calls for effect (logging) and
            # assignments of values that are read only through atoms are passed over
            if isinstance(s, ast.Assign) and len(s.targets) == 1 and isinstance(s.targets[0], ast.Name):
                try: v = self.val(s.value)
                except Unsupported:
                    self.assumptions.append(f"line {s.lineno}: assignment to `{s.targets[0].id}` not modelled (read only through atoms)")
                    return self.block(rest, var, cur, ind)
                return f"{pad}let {s.targets[0].id} := {v}\n" + self.block(rest, var, cur, ind)
            if isinstance(s, ast.Expr) and isinstance(s.value, ast.Call): return self.block(rest, var, cur, ind)
            # a cache slot filled in: `self.<slot> = <a value named by a const atom>`, the slot itself being an optional atom — from here on
            # the slot holds that value
            if isinstance(s, ast.Assign) and len(s.targets) == 1 and isinstance(s.targets[0], ast.Attribute):
                slot = self.atoms.get(ast.unparse(s.targets[0])); v = self.atoms.get(ast.unparse(s.value))
                if slot and slot[1] == "opt" and v and v[1] == "const":
                    self.used.update([ast.unparse(s.targets[0]), ast.unparse(s.value)])
                    return f"{pad}let {slot[0]} : LK.Py.V := (some ({v[0]}))\n" + self.block(rest, var, cur, ind)
            raise Unsupported("statement: " + ast.unparse(s)[:60])
        if self.stores(s, var): raise Unsupported(f"`{var}` assigned inside `{type(s).__name__}` at line {s.lineno}")
        return self.block(rest, var, cur, ind)

def find_fn(mod, cls_name, fn_name):
    scope = mod.body
    if cls_name:
        scope = next((s.body for s in mod.body if isinstance(s, ast.ClassDef) and s.name == cls_name), None)
        if scope is None: raise Unsupported(f"class {cls_name} not found")
    defs = [m for m in scope if isinstance(m, (ast.FunctionDef, ast.AsyncFunctionDef)) and m.name == fn_name]
    fn = defs[-1] if defs else None          # `@overload` stubs come first; the implementation is the last definition
    if fn is None: raise Unsupported(f"{cls_name + '.' if cls_name else ''}{fn_name} not found")
    return fn

def translate_site(src_root, site):
    path = os.path.join(src_root, site["file"]); src = open(path).read(); mod = ast.parse(src)
    fn = find_fn(mod, site.get("cls"), site["fn"])
    g = G(site["atoms"]); mode = site["mode"]; rty = "LK.Py.V"
    if mode == "var":
        var = site["var"]; cur = site["atoms"][var][0] if var in site["atoms"] else "tracked"
        g.tracked = (var, cur)
        stmts = fn.body
        if site.get("before_loop"):          # only the prefix of the function up to its first `with` / `for` / `while` block
            cut = next((i for i, s in enumerate(stmts) if isinstance(s, (ast.With, ast.For, ast.While))), len(stmts)); stmts = stmts[:cut]
        idx = [i for i, s in enumerate(stmts) if G.stores(s, var)]
        if not idx: raise Unsupported(f"`{var}` is never assigned in {site['fn']}" + (" before its loop" if site.get("before_loop") else ""))
        body = g.block(stmts[: idx[-1] + 1], var, cur, 1)
        if var not in site["atoms"]:          # the variable is created by the function: `none` until it is first assigned
            body = f"  let {cur} : LK.Py.V := none\n" + body
    elif mode == "fn":
        body = g.block(fn.body, None, "", 1)
    elif mode == "assign":
        hits = [n for n in ast.walk(fn) if isinstance(n, ast.Assign) and any(ast.unparse(t) == site["var"] for t in n.targets)]
        if len(hits) != 1: raise Unsupported(f"{len(hits)} assignments to `{site['var']}` in {site['fn']} (expected one)")
        body = "  " + g.val(hits[0].value)
    elif mode == "ifvar":
        # the truth value a variable receives from the one `if … : var = a  else: var = b` statement that assigns it (wherever it is nested)
        hits = [n for n in ast.walk(fn) if isinstance(n, ast.If) and len(n.body) == 1 and len(n.orelse) == 1
                and all(isinstance(b, ast.Assign) and len(b.targets) == 1 and ast.unparse(b.targets[0]) == site["var"] for b in (n.body[0], n.orelse[0]))]
        others = [n for n in ast.walk(fn) if isinstance(n, ast.Assign) and any(ast.unparse(t) == site["var"] for t in n.targets)]
        if len(hits) != 1 or len(others) != 2: raise Unsupported(f"`{site['var']}` is not assigned by exactly one two-armed `if` in {site['fn']}")
        def bval(e):
            if isinstance(e, ast.Constant) and isinstance(e.value, bool): return "true" if e.value else "false"
            return g.cond(e)
        body = f"  if {g.cond(hits[0].test)} then {bval(hits[0].body[0].value)} else {bval(hits[0].orelse[0].value)}"; rty = "Bool"
    elif mode == "kwarg":
        # the truth value handed to a callee as a keyword argument at the one place the function calls it
        hits = [k.value for n in ast.walk(fn) if isinstance(n, ast.Call) and ast.unparse(n.func) == site["callee"] for k in n.keywords if k.arg == site["kw"]]
        if len(hits) != 1: raise Unsupported(f"{len(hits)} calls of `{site['callee']}` pass `{site['kw']}=` in {site['fn']} (expected one)")
        body = f"  {g.cond(hits[0])}"; rty = "Bool"
    elif mode == "copy":
        # how deep a copy the code takes at a given place: 0 the object itself (an alias), 1 a fresh container holding the same members,
        # 2 a deep copy.  `where` is the text of an assignment target, or "return:<callee>" for the first argument of a returned call.
        def depth(e):
            u = ast.unparse(e)
            if isinstance(e, (ast.Name, ast.Attribute, ast.Subscript)): return 0
            if isinstance(e, ast.Call):
                f = ast.unparse(e.func)
                if f in ("deepcopy", "copy.deepcopy") and len(e.args) == 1: return 2
                if f.endswith(".model_copy"):
                    kw = {k.arg: ast.unparse(k.value) for k in e.keywords}
                    return 2 if kw.get("deep") == "True" else 1
                if f in ("dict", "list", "set") and len(e.args) == 1 and not e.keywords: return 1
                if f.endswith(".copy") and not e.args: return 1
            if isinstance(e, ast.Dict) and not e.keys: return 1          # `{}`: a new, empty container
            if isinstance(e, ast.BinOp) and isinstance(e.op, ast.BitOr): return 1          # `a | b` of two dictionaries builds a new one
            if isinstance(e, ast.DictComp) and isinstance(e.value, ast.Call) and ast.unparse(e.value.func) in ("dict", "list") : return 2
            raise Unsupported(f"copy expression `{u[:60]}`")
        where = site["where"]
        if where.startswith("return:"):
            callee = where.split(":", 1)[1]
            hits = [n.value.args[0] for n in ast.walk(fn) if isinstance(n, ast.Return) and isinstance(n.value, ast.Call) and ast.unparse(n.value.func) == callee and n.value.args]
        else:
            hits = [n.value for n in ast.walk(fn) if isinstance(n, ast.Assign) and any(ast.unparse(t) == where for t in n.targets)]
            if site.get("pick") is not None: hits = [h for h in hits if site["pick"] in ast.unparse(h)]
        if len(hits) != 1: raise Unsupported(f"{len(hits)} places match `{where}` in {site['fn']} (expected one)")
        body = f"  {depth(hits[0])}"; rty = "Nat"
    elif mode == "callkw":
        # the one call of `callee` in the function: how many of its arguments are not the expected ones — positional arguments other than
        # the listed texts, keyword arguments outside the allowed names (an option that changes what is written / how a selector is read)
        hits = [n for n in ast.walk(fn) if isinstance(n, ast.Call) and ast.unparse(n.func) == site["callee"]]
        if len(hits) != 1: raise Unsupported(f"{len(hits)} calls of `{site['callee']}` in {site['fn']} (expected one)")
        c = hits[0]
        count = sum(1 for k in c.keywords if k.arg is None or k.arg not in site["allowed"]) + (0 if [ast.unparse(a) for a in c.args] == site["args"] else 1)
        body = f"  {count}"; rty = "Nat"
    elif mode == "once":
        # a component builds its generator factory once, when it is constructed, and every call draws from what that factory returns: the
        # number of departures — the attribute defined as a method / property, not assigned exactly once at the top level of `__init__`
        # from the expected maker, assigned or the maker called anywhere else in the class, the call method not using it exactly once
        cnode = next(c for c in mod.body if isinstance(c, ast.ClassDef) and c.name == site["cls"]); digest_node = cnode
        attr, maker, use = site["attr"], site["maker"], site["use"]
        count = 0
        if any(isinstance(f, (ast.FunctionDef, ast.AsyncFunctionDef)) and f.name == attr for f in cnode.body): count += 1
        tops = [st for st in fn.body if isinstance(st, ast.Assign) and [ast.unparse(t) for t in st.targets] == ["self." + attr]]
        if len(tops) != 1 or ast.unparse(tops[0].value) != maker: count += 1
        maker_fn = maker.split("(")[0]
        for f in cnode.body:
            if not isinstance(f, (ast.FunctionDef, ast.AsyncFunctionDef)): continue
            for n in ast.walk(f):
                if isinstance(n, (ast.Assign, ast.AugAssign, ast.AnnAssign)) and any(ast.unparse(t) == "self." + attr for t in (n.targets if isinstance(n, ast.Assign) else [n.target])) and n not in tops: count += 1
                if isinstance(n, ast.Call) and ast.unparse(n.func) == maker_fn and not (f is fn and any(n is x for t in tops for x in ast.walk(t))): count += 1
        ufn = find_fn(mod, site["cls"], site["use_fn"])
        uses = [n for n in ast.walk(ufn) if isinstance(n, ast.Call) and ast.unparse(n) == use]
        other = [n for n in ast.walk(ufn) if isinstance(n, ast.Attribute) and ast.unparse(n) == "self." + attr]
        if len(uses) != 1 or len(other) != 1: count += 1
        if any(isinstance(n, (ast.For, ast.While)) and any(u in list(ast.walk(n)) for u in uses) for n in ast.walk(ufn)): count += 1
        body = f"  {count}"; rty = "Nat"
    elif mode == "aliasmut":
        # a constructor that starts from `self.__dict__.update(source.__dict__)` shares every attribute object with `source` until it
        # rebinds the attribute.  Counted: the places that change such a shared object in place — a mutating method call or a
        # subscript store / delete / augmented assignment on `source.<attr>` anywhere, or on `self.<attr>` before the first `self.<attr> = …`.
        osrc = site["source"]
        if not any(isinstance(n, ast.Call) and ast.unparse(n.func) == "self.__dict__.update" and [ast.unparse(a) for a in n.args] == [osrc + ".__dict__"] for n in ast.walk(fn)):
            raise Unsupported(f"no `self.__dict__.update({osrc}.__dict__)` in {site['fn']}")
        MUT = {"pop", "popitem", "update", "clear", "setdefault", "sort", "fill", "resize", "put", "append", "extend", "insert", "remove", "reverse", "itemset", "partition", "setfield", "__setitem__", "__delitem__"}
        rebound = {}
        for n in ast.walk(fn):
            if isinstance(n, ast.Assign):
                for t in n.targets:
                    if isinstance(t, ast.Attribute) and ast.unparse(t.value) == "self": rebound[t.attr] = min(rebound.get(t.attr, 10**9), n.lineno)
        def shared(e, line):
            """is `e` (the object being changed) an attribute object shared with the source at this line?"""
            while isinstance(e, ast.Subscript): e = e.value
            if not isinstance(e, ast.Attribute) or e.attr == "__dict__": return False
            base = ast.unparse(e.value)
            return base == osrc or (base == "self" and line <= rebound.get(e.attr, 10**9))
        count = 0
        for n in ast.walk(fn):
            if isinstance(n, ast.Call) and isinstance(n.func, ast.Attribute) and n.func.attr in MUT and shared(n.func.value, n.lineno): count += 1
            tg = n.targets if isinstance(n, (ast.Assign, ast.Delete)) else [n.target] if isinstance(n, ast.AugAssign) else []
            for t in tg:
                if isinstance(t, ast.Subscript) and shared(t.value, n.lineno): count += 1
                if isinstance(n, ast.AugAssign) and isinstance(t, ast.Attribute) and shared(t, n.lineno): count += 1          # `self.x |= …` changes a dict / array in place
        body = f"  {count}"; rty = "Nat"
    elif mode == "order":
        # in which order a collection is written into the configuration document: 1 a canonical (sorted) order, 0 the order the
        # container happens to iterate in (insertion order of a dict, hash order of a set)
        def order(e):
            if isinstance(e, ast.IfExp): return min(order(x) for x in (e.body, e.orelse) if not (isinstance(x, ast.Constant) and x.value is None))
            if isinstance(e, ast.Call):
                f = ast.unparse(e.func)
                if f == "sorted":
                    # canonical means: by the entry's name — the default order of (name, value) pairs / of strings, or an explicit key on the name
                    kw = {k.arg: k.value for k in e.keywords}
                    if set(kw) - {"key"}: raise Unsupported(f"sorted(…, {', '.join(sorted(set(kw) - {'key'}))}=…)")
                    if "key" in kw:
                        k = kw["key"]
                        ok = isinstance(k, ast.Lambda) and len(k.args.args) == 1 and isinstance(k.body, ast.Subscript) and isinstance(k.body.value, ast.Name) \
                            and k.body.value.id == k.args.args[0].arg and isinstance(k.body.slice, ast.Constant) and k.body.slice.value == 0
                        return 1 if ok else 0
                    return 1
                if f in ("dict", "list", "tuple") and len(e.args) == 1: return order(e.args[0])
                return 0
            if isinstance(e, (ast.DictComp, ast.ListComp, ast.GeneratorExp)) and len(e.generators) == 1: return order(e.generators[0].iter)
            if isinstance(e, (ast.Name, ast.Attribute, ast.Subscript, ast.SetComp, ast.Set, ast.Dict)): return 0
            raise Unsupported(f"ordering expression `{ast.unparse(e)[:60]}`")
        where = site["where"]
        if where == "return":
            hits = [n.value for n in ast.walk(fn) if isinstance(n, ast.Return) and n.value is not None]
        else:
            hits = [n.value for n in ast.walk(fn) if isinstance(n, ast.Assign) and any(ast.unparse(t) == where for t in n.targets)]
        if len(hits) != 1: raise Unsupported(f"{len(hits)} places match `{where}` in {site['fn']} (expected one)")
        body = f"  {order(hits[0])}"; rty = "Nat"
    elif mode == "branch":
        ifs = [n for n in ast.walk(fn) if isinstance(n, ast.If)]
        ifs.sort(key=lambda n: (n.lineno, n.col_offset))
        elifs = {id(n.orelse[0]) for n in ifs if len(n.orelse) == 1 and isinstance(n.orelse[0], ast.If)}
        heads = [n for n in ifs if id(n) not in elifs and site["select"] in ast.unparse(n)]
        heads = [n for n in heads if any(site["select"] in ast.unparse(t) for t in _chain_tests(n))]
        if site.get("exact"): heads = [n for n in heads if ast.unparse(n.test) == site["select"]]          # the chain whose first test is exactly this text
        if len(heads) != 1: raise Unsupported(f"{len(heads)} `if` chains test `{site['select']}` in {site['fn']} (expected one)")
        if site.get("skips"):          # a retrain guard: the branch taken must leave at once, before the component's state is touched
            h = heads[0]
            if not (len(h.body) == 1 and isinstance(h.body[0], ast.Return) and h.body[0].value is None): raise Unsupported(f"the guard of {site['cls']}.{site['fn']} does not simply return")
            before = fn.body[: next((i for i, st in enumerate(fn.body) if st is h), len(fn.body))]
            if h not in fn.body or any(isinstance(t, ast.Attribute) for st in before for n in ast.walk(st) if isinstance(n, (ast.Assign, ast.AugAssign, ast.AnnAssign))
                                       for t in (n.targets if isinstance(n, ast.Assign) else [n.target])):
                raise Unsupported(f"{site['cls']}.{site['fn']} touches the component before its retrain guard")
        tests = _chain_tests(heads[0])
        body = ""; k = 0
        for t in tests:
            body += ("  " if k == 0 else " else ") + f"if {g.cond(t)} then {k}"; k += 1
        body += f" else {k}"; rty = "Nat"
    else: raise Unsupported("mode " + mode)
    params = []; seen = set()
    for text, (name, kind) in site["atoms"].items():
        if name in seen or kind in ("const", "local"): continue
        seen.add(name); params.append(f"({name} : " + {"opt": "LK.Py.V", "int": "Int", "bool": "Bool"}[kind] + ")")
    seg = ast.get_source_segment(src, digest_node if mode == "once" else fn)
    return {"lean": f"def {site['lean']} " + " ".join(params) + f" : {rty} :=\n{body}\n", "assumptions": g.assumptions,
            "digest": hashlib.sha256(seg.encode()).hexdigest()[:16], "where": f"{site['file']} {site.get('cls') or ''}.{site['fn']} [{mode}]"}

def _chain_tests(n):
    out = [n.test]
    while len(n.orelse) == 1 and isinstance(n.orelse[0], ast.If):
        n = n.orelse[0]; out.append(n.test)
    return out

O, I, B = "opt", "int", "bool"
SITES = {
 "C02": [dict(file="pipeline/components.py", cls=None, fn="fallback_on_none", mode="fn", lean="fallbackOnNone",
              atoms={"primary": ("primary", O), "fallback.get()": ("fallback", O)})],
 "C03": [dict(file="basic/topn.py", cls="TopNRanker", fn="__call__", mode="var", var="n", lean="topnN",
              atoms={"n": ("n", O), "self.config.n": ("cfgN", O)}),
         dict(file="basic/history.py", cls="UserTrainingHistoryLookup", fn="__call__", mode="var", var="query.user_items", lean="historyItems",
              atoms={"query.user_items": ("hist", O), "query.user_id": ("uid", O), "self.interactions.row_items(query.user_id)": ("row", O)})],
 "C08": [dict(file="basic/bias.py", cls="BiasModel", fn="compute_for_items", mode="branch", select="ratings is not None", lean="biasUserBranch",
              atoms={"ratings": ("ratings", O), "user_id": ("uid", O)})],
 "C09": [dict(file="knn/user.py", cls="UserKNNScorer", fn="__call__", mode="branch", select="uidx", lean="uknnSelfBranch",
              atoms={"uidx": ("uidx", O)})],
 "C10": [dict(file="als/_common.py", cls="ALSBase", fn="__call__", mode="var", var="user_num", lean="alsUserNum",
              atoms={"user_id": ("uid", O), "self.users_": ("users", O), "self.users_.number(user_id, missing=None)": ("num", O)}),
         dict(file="als/_common.py", cls="ALSBase", fn="__call__", mode="branch", select="query.user_items is not None", lean="alsFoldInBranch",
              atoms={"query.user_items": ("hist", O), "len(query.user_items)": ("histLen", I), "self.config.user_embeddings != 'prefer'": ("notPrefer", B)}),
         dict(file="basic/bias.py", cls="BiasModel", fn="compute_for_items", mode="branch", select="ratings is not None", lean="biasUserBranch",
              atoms={"ratings": ("ratings", O), "user_id": ("uid", O)})],
 "C11": [dict(file="random.py", cls="DerivingRNG", fn="__call__", mode="branch", select="query", lean="derivingBranch",
              atoms={"query": ("query", O), "query.user_id": ("uid", O)})],
 "C18": [dict(file="pipeline/_impl.py", cls="Pipeline", fn="train", mode="var", var="seed", lean="trainSeed",
              atoms={"isinstance(options.rng, SeedSequence)": ("isSeq", B), "isinstance(options.rng, (Generator, BitGenerator))": ("isGen", B),
                     "options.rng": ("rng", O), "SeedSequence(options.rng)": ("wrapped", O)}),
         dict(file="pipeline/_impl.py", cls="Pipeline", fn="train", mode="assign", var="c_opts", lean="trainCompOptions",
              atoms={"options": ("opts", O), "seed": ("seed", O), "replace(options, rng=seed.spawn(1)[0])": ("spawnedOpts", O)})],
 "C19": [dict(file="stochastic/_ranker.py", cls="StochasticTopNRanker", fn="__call__", mode="var", var="n", lean="stochasticN",
              atoms={"n": ("n", O), "self.config.n": ("cfgN", O), "N": ("N", I)}),
         dict(file="basic/random.py", cls="SoftmaxRanker", fn="__call__", mode="var", var="n", lean="softmaxN",
              atoms={"n": ("n", O), "self.config.n": ("cfgN", O), "N": ("N", I)}),
         dict(file="basic/random.py", cls="RandomSelector", fn="__call__", mode="var", var="n", lean="randomN",
              atoms={"n": ("n", O), "self.config.n": ("cfgN", O), "len(items)": ("L", I)})],
 "C05": [dict(file="splitting/records.py", cls=None, fn="sample_records", mode="fn", lean="sampleRecordsPath",
              atoms={"repeats": ("repeats", O), "disjoint": ("disjoint", B), "repeats * size >= n": ("tooMany", B),
                     "_make_pair(data, df, test_pos, test_only=test_only)": ("0", "const"),
                     "crossfold_records(data, repeats, test_only=test_only, rng=rng)": ("1", "const"),
                     "_disjoint_samples(n, size, repeats, rng)": ("2", "const"), "_n_samples(n, size, repeats, rng)": ("3", "const"),
                     "(_make_pair(data, df, test_is, test_only=test_only) for test_is in ips)": ("ips", "local")}),
         dict(file="splitting/users.py", cls=None, fn="sample_users", mode="fn", lean="sampleUsersPath",
              atoms={"repeats": ("repeats", O), "disjoint": ("disjoint", B), "repeats * size >= len(users)": ("tooMany", B),
                     "_make_split(data, rate_df, test_us, method, test_only=test_only)": ("0", "const"),
                     "crossfold_users(data, repeats, method, test_only=test_only, rng=rng)": ("1", "const"),
                     "[unums[i * size:(i + 1) * size] for i in range(repeats)]": ("2", "const"),
                     "[rng.choice(len(users), size, replace=False) for _i in range(repeats)]": ("3", "const"),
                     "(_make_split(data, rate_df, users[us], method, test_only=test_only) for us in test_usets)": ("test_usets", "local")})],
 "C06": [dict(file="metrics/ranking/_base.py", cls="RankingMetricBase", fn="truncate", mode="fn", lean="truncate",
              atoms={"self.k": ("k", O), "items.ordered": ("ordered", B), "len(items)": ("len", I), "items[:self.k]": ("cut", O), "items": ("items", O)}),
         dict(file="metrics/ranking/_pr.py", cls="Recall", fn="measure_list", mode="var", var="nrel", lean="recallDenominator",
              atoms={"self.k": ("k", O), "len(test)": ("nTest", I)}),
         dict(file="metrics/ranking/_dcg.py", cls="NDCG", fn="measure_list", mode="var", var="n", lean="ndcgIdealLength",
              atoms={"self.k": ("k", O), "self.gain": ("gain", O), "len(test)": ("nTest", I)})],
 "C07": [dict(file="metrics/bulk.py", cls="RunAnalysis", fn="measure", mode="branch", select="list_test", lean="measureTestBranch",
              atoms={"out": ("out", O), "list_test": ("listTest", O)})],
 "C01": [dict(file="data/relationships.py", cls="MatrixRelationshipSet", fn="row_items", mode="branch", select="tbl", lean="rowItemsBranch",
              atoms={"tbl": ("tbl", O)})],
}

# the retrain guard every shipped trainable component starts `train` with (C18: the shape `LK.Train.train` assumes)
TRAIN_GUARDS = [("implicit.py", "BaseRec", "item_embeddings"), ("knn/item.py", "ItemKNNScorer", "items_"), ("knn/user.py", "UserKNNScorer", "user_ratings_"),
                ("funksvd.py", "FunkSVDScorer", "item_features_"), ("sklearn/svd.py", "BiasedSVDScorer", "factorization_"), ("hpf.py", "HPFScorer", "item_features_"),
                ("basic/history.py", "UserTrainingHistoryLookup", "interactions"), ("basic/history.py", "KnownRatingScorer", "interactions"),
                ("basic/bias.py", "BiasScorer", "model_"), ("basic/candidates.py", "TrainingCandidateSelectorBase", "items_"),
                ("basic/popularity.py", "PopScorer", "item_scores_"), ("basic/popularity.py", "TimeBoundedPopScore", "item_scores_")]
for _f, _c, _a in TRAIN_GUARDS:
    SITES["C18"].append(dict(file=_f, cls=_c, fn="train", mode="branch", select="options.retrain", lean="guard" + _c, skips=True,
                             atoms={f"hasattr(self, '{_a}')": ("trained", B), "options.retrain": ("retrain", B)}))
SITES["C18"].append(dict(file="training.py", cls="IterativeTraining", fn="train", mode="branch", select="options.retrain", lean="guardIterativeTraining", skips=True,
                         atoms={"self.trained_epochs > 0": ("trained", B), "options.retrain": ("retrain", B)}))

SITES["C18"].append(dict(file="training.py", cls="IterativeTraining", fn="train", mode="var", var="self.trained_epochs", lean="epochsAtLoopStart", before_loop=True,
                         atoms={"self.trained_epochs": ("epochs", O), "self.trained_epochs > 0": ("trained", B), "options.retrain": ("retrain", B)}))

SITES["C14"] = [
    dict(file="pipeline/builder.py", cls="PipelineBuilder", fn="from_pipeline", mode="copy", where="builder._edges[name]", lean="modifyEdgesCopy", atoms={}),
    dict(file="pipeline/builder.py", cls="PipelineBuilder", fn="build_config", mode="copy", where="edges", lean="buildConfigEdgesCopy", atoms={}),
    dict(file="data/builder.py", cls="DatasetBuilder", fn="__init__", mode="copy", where="self.schema", pick="name.schema", lean="builderFromDatasetSchemaCopy", atoms={}),
    dict(file="data/builder.py", cls="DatasetBuilder", fn="build_container", mode="copy", where="return:DataContainer", lean="buildContainerSchemaCopy", atoms={}),
    dict(file="data/items.py", cls="ItemList", fn="__init__", mode="copy", where="eff_fields", pick="source._fields", lean="itemListEffFieldsCopy", atoms={}),
    dict(file="data/items.py", cls="ItemList", fn="__init__", mode="copy", where="self._fields", lean="itemListFieldsCopy", atoms={}),
    dict(file="data/items.py", cls="ItemList", fn="__init__", mode="aliasmut", source="source", lean="itemListSharedMutations", atoms={}),
]

SITES["C13"] = [
    dict(file="pipeline/config.py", cls="PipelineInput", fn="_serialize_types", mode="order", where="return", lean="inputTypesOrder", atoms={}),
    dict(file="pipeline/builder.py", cls="PipelineBuilder", fn="build_config", mode="order", where="c_cfg.inputs", lean="componentInputsOrder", atoms={}),
    dict(file="pipeline/builder.py", cls="PipelineBuilder", fn="build_config", mode="order", where="cfg.aliases", lean="aliasesOrder", atoms={}),
    dict(file="pipeline/builder.py", cls="PipelineBuilder", fn="build_config", mode="order", where="cfg.literals", lean="literalsOrder", atoms={}),
]

SITES["C16"] = [
    dict(file="data/items.py", cls="ItemList", fn="numbers", mode="branch", select="vocabulary is not None", lean="numbersAltBranch",
         atoms={"vocabulary": ("vocabulary", O), "vocabulary is not self._vocab": ("differs", B)}),
    dict(file="data/items.py", cls="ItemList", fn="numbers", mode="branch", select="missing == 'error'", lean="numbersErrorBranch",
         atoms={"missing == 'error'": ("missingIsError", B), "np.any(self._numbers.numpy() < 0)": ("anyUnknown", B)}),
    dict(file="data/items.py", cls="ItemList", fn="numbers", mode="branch", select="self._numbers is None", lean="numbersCacheBranch",
         atoms={"self._numbers": ("cached", O), "self._vocab": ("vocab", O)}),
]

# `ComponentNode.create`: what kind of node a component given to the builder becomes — a class that takes a configuration always has the
# configuration validated (a missing one becomes the component's default settings), so that the document lists the settings in force
SITES["C13"] += [
    dict(file="pipeline/nodes.py", cls="ComponentNode", fn="create", mode="fn", lean="createDispatch",
         atoms={"isinstance(comp, Component)": ("isInstance", B), "isinstance(comp, ComponentConstructor)": ("isConstructor", B), "isinstance(comp, type)": ("isType", B),
                "ComponentInstanceNode(name, cast(Component[ND], comp))": ("0", "const"), "ComponentConstructorNode(name, comp, comp.validate_config(config))": ("1", "const"),
                "ComponentConstructorNode(name, comp, None)": ("2", "const"), "ComponentInstanceNode(name, comp)": ("3", "const")}),
]

# the three stochastic components build their generator factory once, when constructed, and draw from it once per call
SITES["C19"] += [
    dict(file=f, cls=c, fn="__init__", mode="once", attr="_rng_factory", maker="derivable_rng(self.config.rng)", use_fn="__call__", use="self._rng_factory(query)", lean=l, atoms={})
    for f, c, l in (("basic/random.py", "RandomSelector", "randomSelectorFactoryDepartures"), ("basic/random.py", "SoftmaxRanker", "softmaxRankerFactoryDepartures"),
                    ("stochastic/_ranker.py", "StochasticTopNRanker", "stochasticRankerFactoryDepartures"))
]

# the dataset's tables are written as they are (no option that coerces or truncates values); a selector is read as given (no forced type)
SITES["C16"] += [dict(file="data/items.py", cls="ItemList", fn="__getitem__", mode="callkw", callee="np.asarray", args=["sel"], allowed=[], lean="selectorConversionOptions", atoms={})]

# `ranks()`: an unordered list has no ranks — whatever is cached; an ordered one returns the stored ranks, computing 1…n when none are stored
SITES["C16"] += [
    dict(file="data/items.py", cls="ItemList", fn="ranks", mode="fn", lean="ranksDispatch",
         atoms={"self.ordered": ("ordered", B), "self._ranks": ("stored", O), "self._ranks.to(format)": ("stored", "local"),
                "MTArray(np.arange(1, self._len + 1, dtype=np.int32))": ("0", "const")}),
]

# the copy constructor's bookkeeping: which of the slots copied from the source (`_ids`, `_numbers`, `_ranks`) survive an override
SITES["C16"] += [
    dict(file="data/items.py", cls="ItemList", fn="__init__", mode="branch", select="source._vocab is not vocabulary", lean="ctorStaleNumbersBranch",
         atoms={"isinstance(source, ItemList)": ("srcIsList", B), "source._vocab": ("srcVocab", O), "source._vocab is not vocabulary": ("differs", B), "source._numbers": ("srcNumbers", O)}),
    dict(file="data/items.py", cls="ItemList", fn="__init__", mode="branch", select="'item_id' not in fields", lean="ctorResolveIdsBranch",
         atoms={"item_ids": ("itemIds", O), "'item_id' not in fields": ("noIdAlias", B)}),
    dict(file="data/items.py", cls="ItemList", fn="__init__", mode="branch", select="source is not None and source._numbers", lean="ctorClearNumbersBranch",
         atoms={"source": ("source", O), "source._numbers": ("srcNumbers", O)}),
    dict(file="data/items.py", cls="ItemList", fn="__init__", mode="branch", select="source._ids is not None", lean="ctorClearIdsBranch",
         atoms={"item_ids": ("itemIds", O), "source": ("source", O), "source._ids": ("srcIds", O)}),
    dict(file="data/items.py", cls="ItemList", fn="__init__", mode="branch", select="self._len != source._len", lean="ctorDropRanksBranch",
         atoms={"isinstance(source, ItemList)": ("srcIsList", B), "self._len": ("newLen", I), "source._len": ("srcLen", I)}),
]

SITES["C13"] += [
    dict(file="pipeline/builder.py", cls="PipelineBuilder", fn="build_config", mode="branch", select="self._default_connections", lean="defaultConnectionBranch",
         atoms={"iname not in c_ins": ("unwired", B), "iname in self._default_connections": ("hasDefault", B)}),
    dict(file="pipeline/builder.py", cls="PipelineBuilder", fn="build_config", mode="branch", select="include_hash", lean="includeHashBranch",
         atoms={"include_hash": ("includeHash", B)}),
    dict(file="pipeline/builder.py", cls="PipelineBuilder", fn="build_config", mode="branch", select="self._default", exact=True, lean="defaultNodeBranch",
         atoms={"self._default": ("dflt", O)}),
    dict(file="pipeline/builder.py", cls="PipelineBuilder", fn="from_config", mode="branch", select="cfg.meta.hash is not None", lean="recordedHashBranch",
         atoms={"cfg.meta.hash": ("recorded", O)}),
    dict(file="pipeline/builder.py", cls="PipelineBuilder", fn="from_config", mode="branch", select="h2 != cfg.meta.hash", lean="hashMismatchBranch",
         atoms={"h2": ("computed", I), "cfg.meta.hash": ("recorded", O)}),
]

# what goes into the pickled state of an item list (C15): stored identifiers / numbers, else resolved through the vocabulary, else left out
SITES["C15"] = [
    dict(file="data/items.py", cls="ItemList", fn="__getstate__", mode="branch", select="self._ids is not None", lean="stateIdsBranch",
         atoms={"self._ids": ("ids", O), "self._vocab": ("vocab", O)}),
    dict(file="data/items.py", cls="ItemList", fn="__getstate__", mode="branch", select="self._numbers is not None", lean="stateNumbersBranch",
         atoms={"self._numbers": ("numbers", O), "self._vocab": ("vocab", O)}),
    dict(file="data/items.py", cls="ItemList", fn="__setstate__", mode="branch", select="'numbers' in state", lean="restoreNumbersBranch",
         atoms={"'numbers' in state": ("hasNumbers", B)}),
]
SITES["C15"] += [dict(file="data/container.py", cls="DataContainer", fn="save", mode="callkw", callee="write_table", args=["table", "path / f'{name}.parquet'"], allowed=["compression"], lean="writeTableExtraOptions", atoms={})]

# identifiers ↔ numbers (C01): unknown identifiers are reported, never mapped to some row; negative numbers never index from the end
SITES["C01"] += [
    dict(file="data/relationships.py", cls="MatrixRelationshipSet", fn="row_table", mode="var", var="number", lean="rowNumber",
         atoms={"number": ("number", O), "id": ("ident", O), "self.row_vocabulary.number(id, 'none')": ("looked", O)}),
    dict(file="data/vocab.py", cls="Vocabulary", fn="number", mode="branch", select="missing == 'error'", lean="vocabNumberMissingBranch",
         atoms={"missing == 'error'": ("missingIsError", B)}),
    dict(file="data/vocab.py", cls="Vocabulary", fn="numbers", mode="branch", select="np.any(nums < 0)", lean="vocabNumbersErrorBranch",
         atoms={"missing == 'error'": ("missingIsError", B), "np.any(nums < 0)": ("anyUnknown", B)}),
    dict(file="data/vocab.py", cls="Vocabulary", fn="term", mode="branch", select="num", lean="vocabTermNegativeBranch",
         atoms={"num": ("num", I)}),
    dict(file="data/vocab.py", cls="Vocabulary", fn="terms", mode="branch", select="np.any(nums < 0)", lean="vocabTermsNegativeBranch",
         atoms={"np.any(nums < 0)": ("anyNegative", B)}),
]

# `argtopn` (C03): nothing for n = 0; missing scores are set aside before ranking; a partial sort only when fewer than all are wanted
SITES["C03"] += [
    dict(file="stats.py", cls=None, fn="argtopn", mode="branch", select="n == 0", lean="argtopnZeroBranch", atoms={"n": ("n", I)}),
    dict(file="stats.py", cls=None, fn="argtopn", mode="branch", select="np.any(invalid)", lean="argtopnInvalidBranch", atoms={"np.any(invalid)": ("anyMissing", B)}),
    dict(file="stats.py", cls=None, fn="argtopn", mode="branch", select="n < N", lean="argtopnPartialBranch", atoms={"n": ("n", I), "N": ("N", I)}),
]

# time bounds of `filter_interactions` (C05): a bound is applied exactly when it is given — 0 is a bound
_FI = dict(file="data/builder.py", cls="DatasetBuilder", fn="filter_interactions")
SITES["C05"] += [
    dict(_FI, mode="branch", select="min_time is not None or max_time is not None", lean="timeFilterRequested", atoms={"min_time": ("minTime", O), "max_time": ("maxTime", O)}),
    dict(_FI, mode="branch", select="min_time is not None", exact=True, lean="minTimeApplied", atoms={"min_time": ("minTime", O)}),
    dict(_FI, mode="branch", select="max_time is not None", exact=True, lean="maxTimeApplied", atoms={"max_time": ("maxTime", O)}),
]
# the default a metric is registered with (C07): one that is given — 0 included — is kept; otherwise the metric's own, or 0 for plain functions
SITES["C07"] += [
    dict(file="metrics/bulk.py", cls=None, fn="_wrap_metric", mode="var", var="default", lean="wrapDefault",
         atoms={"default": ("given", O), "isinstance(m, ListMetric)": ("isListMetric", B), "m.default": ("own", O)}),
]

# three places the fourth seeding round pointed at
SITES["C03"] += [dict(file="pipeline/common.py", cls=None, fn="topn_pipeline", mode="branch", select="predicts_ratings == 'raw'", lean="topnPredictsBranch",
                      atoms={"predicts_ratings == 'raw'": ("isRaw", B), "predicts_ratings": ("predicts", O)})]
SITES["C18"] += [dict(file="implicit.py", cls="BaseRec", fn="train", mode="assign", var="delegate", lean="implicitDelegate", atoms={"self._construct()": ("1", "const")})]
SITES["C11"] += [dict(file="training.py", cls="TrainingOptions", fn="random_generator", mode="fn", lean="optionsGenerator", atoms={"random_generator(self.rng)": ("1", "const")})]

# the runner's decisions (C02): what a request of a finished / running node yields, when an input or a dependency is reported missing or
# ill-typed, when a dependency is required of its source, and when a component that is not required bails out
_RUN = dict(file="pipeline/runner.py", cls="PipelineRunner")
SITES["C02"] += [
    dict(_RUN, fn="run", mode="branch", select="status == 'finished'", lean="runStatusBranch",
         atoms={"status == 'finished'": ("finished", B), "status == 'in-progress'": ("inProgress", B), "status == 'failed'": ("failed", B)}),
    dict(_RUN, fn="run", mode="branch", select="node.name in self.state", lean="runFinishedBranch",
         atoms={"node.name in self.state": ("hasState", B), "required": ("required", B)}),
    dict(_RUN, fn="run", mode="branch", select="isinstance(node, InputNode)", lean="runRevalidateBranch",
         atoms={"val": ("val", O), "required": ("required", B), "isinstance(node, InputNode)": ("isInput", B)}),
    dict(_RUN, fn="_inject_input", mode="branch", select="is_compatible_data(None, *types)", lean="injectMissingBranch",
         atoms={"val": ("val", O), "required": ("required", B), "types": ("typed", B), "is_compatible_data(None, *types)": ("noneOk", B)}),
    dict(_RUN, fn="_inject_input", mode="branch", select="is_compatible_data(val, *types)", lean="injectTypeBranch",
         atoms={"val": ("val", O), "types": ("typed", B), "is_compatible_data(val, *types)": ("valOk", B)}),
    dict(_RUN, fn="_run_component", mode="ifvar", var="ireq", lean="inputRequired",
         atoms={"required": ("required", B), "itype": ("typed", B), "is_compatible_data(None, itype)": ("noneOk", B)}),
    dict(_RUN, fn="_run_component", mode="branch", select="not required", lean="bailOutBranch",
         atoms={"ival": ("ival", O), "itype": ("typed", B), "lazy": ("lazy", B), "is_compatible_data(None, itype)": ("noneOk", B), "required": ("required", B)}),
    dict(_RUN, fn="_run_component", mode="branch", select="is_compatible_data(ival, itype)", lean="inputTypeBranch",
         atoms={"itype": ("typed", B), "lazy": ("lazy", B), "is_compatible_data(ival, itype)": ("valOk", B)}),
    dict(_RUN, fn="_run_component", mode="branch", select="ival is None", exact=True, lean="inputErrorKindBranch", atoms={"ival": ("ival", O)}),
    dict(_RUN, fn="_run_component", mode="kwarg", callee="self.run", kw="required", lean="eagerRunRequired", atoms={"ireq": ("ireq", B), "required": ("required", B)}),
    dict(_RUN, fn="_run_component", mode="kwarg", callee="DeferredRun", kw="required", lean="deferredRunRequired", atoms={"ireq": ("ireq", B), "required": ("required", B)}),
    dict(file="pipeline/runner.py", cls="DeferredRun", fn="get", mode="kwarg", callee="self.runner.run", kw="required", lean="deferredGetRequired", atoms={"self.required": ("stored", B)}),
    dict(file="pipeline/runner.py", cls="DeferredRun", fn="get", mode="branch", select="is_compatible_data(val, self.data_type)", lean="deferredTypeBranch",
         atoms={"self.data_type": ("dataType", O), "is_compatible_data(val, self.data_type)": ("valOk", B)}),
]

SITES["C07"] += [
    dict(file="metrics/predict.py", cls="PredictMetric", fn="align_scores", mode="branch", select="pred_m & ~rate_m", lean="missingScoresBranch",
         atoms={"self.missing_scores == 'error'": ("scoresAreError", B), "self.missing_truth == 'error'": ("truthIsError", B),
                "(nbad := np.sum(pred_m & ~rate_m))": ("nRatedUnscored", I), "(nbad := np.sum(rate_m & ~pred_m))": ("nScoredUnrated", I)}),
    dict(file="metrics/predict.py", cls="PredictMetric", fn="align_scores", mode="branch", select="rate_m & ~pred_m", lean="missingTruthBranch",
         atoms={"self.missing_scores == 'error'": ("scoresAreError", B), "self.missing_truth == 'error'": ("truthIsError", B),
                "(nbad := np.sum(pred_m & ~rate_m))": ("nRatedUnscored", I), "(nbad := np.sum(rate_m & ~pred_m))": ("nScoredUnrated", I)}),
]

SITES["C11"] += [
    dict(file="random.py", cls=None, fn="random_generator", mode="branch", select="seed is None", lean="randomGeneratorBranch",
         atoms={"seed": ("seed", O), "_global_rng": ("globalRng", O)}),
    dict(file="random.py", cls=None, fn="derivable_rng", mode="branch", select="spec == 'user'", lean="derivableSpecBranch",
         atoms={"spec == 'user'": ("isUser", B), "isinstance(spec, tuple)": ("isTuple", B)}),
]
SITES["C11"] = SITES["C11"] + SITES["C05"]          # the samplers' fall-back paths must hand the generator on (C11) as well as `test_only` (C05)

def generate(pid, src_root):
    """Lean text of LK/Generated/Guards<pid>.lean for the lenskit sources under `src_root` (…/src/lenskit)."""
    parts = []; notes = []
    for site in SITES[pid]:
        r = translate_site(src_root, site)
        notes.append(f"* `{site['lean']}` ← {r['where']}, source sha256/64 {r['digest']}" + "".join(f"\n    - {a}" for a in dict.fromkeys(r["assumptions"])))
        parts.append(r["lean"])
    head = ("import LK.Model.PyVal\n" + f"/-! GENERATED by translate/py2lean_guards.py on every run of `./check {pid}`; do not edit.\n" + "\n".join(notes) + "\n-/\n"
            "set_option linter.unusedVariables false\n" + f"namespace LK.Gen.Guards{pid}\n\n")
    return head + "\n".join(parts) + f"\nend LK.Gen.Guards{pid}\n"

if __name__ == "__main__":
    root = sys.argv[2] if len(sys.argv) > 2 else "/repo/src/lenskit"
    for pid in ([sys.argv[1]] if len(sys.argv) > 1 and sys.argv[1] != "all" else sorted(SITES)):
        print(generate(pid, root))
