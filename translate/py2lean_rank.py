"""Translate `measure_list` of the list-wise ranking metrics Hit, Precision, Recall, RecipRank and RBP (metrics/ranking) into Lean (C06).

Typed expressions: `ids` (item lists as lists of item numbers), `bools`, `nat`, `q` (a number), `qs` (an array of numbers), `idx` (positions).
  self.truncate(recs) → LK.Metric.truncate k recs      recs.ids() / test.ids() → the lists themselves      len(x)
  np.isin(x, test.ids()) → x.map (isRel T)             b.sum() → countTrue b        np.any(b)
  (npz,) = np.nonzero(b) → trueIdx b                   npz[0]                        len(npz) as a truth value
  np.power(self.patience, np.arange(n)) → powers pat n disc[b] → indexMask disc b    disc[:n] → disc.take n     np.sum(qs)    min(a, b)
  a / b → qdiv (NaN when the denominator is 0)         x * (1 - self.patience)       1 if c else 0      np.nan      literals
  if n == 0: return … | if self.k is not None and self.k < nrel: nrel = self.k | if len(npz): … else: … | if self.normalize: … else: …
"""
import ast, hashlib, os, sys

class Unsupported(Exception): pass
U = ast.unparse

class R:
    def ex(self, e, env):
        u = U(e)
        if isinstance(e, ast.Name) and e.id in env: return env[e.id]
        if u == "self.truncate(recs)": return (f"(LK.Metric.truncate k {env['recs'][0]})", "ids")
        if u in ("recs.ids()",): return env["recs"]
        if u == "test.ids()": return ("TESTIDS", "testids")
        if u == "self.patience": return ("pat", "q")
        if u in ("np.nan",): return ("none", "oq")
        if u == "self.discount": return ("disc", "disc")
        if u == "self.item_ranks": return ("R", "series")
        if isinstance(e, ast.Call) and isinstance(e.func, ast.Attribute) and e.func.attr == "mean" and not e.args and not e.keywords:
            a = self.ex(e.func.value, env)
            if a[1] == "qs": return (f"(meanQ {a[0]})", "q")
        if isinstance(e, ast.Call) and isinstance(e.func, ast.Attribute) and e.func.attr == "reindex" and len(e.args) == 1 and [(k.arg, U(k.value)) for k in e.keywords] == [("fill_value", "0")]:
            sv, it = self.ex(e.func.value, env), self.ex(e.args[0], env)
            if sv[1] == "series" and it[1] == "ids": return (f"(reindex0 {sv[0]} {it[0]})", "qs")          # a re-indexed series, of which only the values are used
        if u == "test.field(self.gain, 'pandas', index='ids')": return ("T", "series")
        if isinstance(e, ast.Constant) and isinstance(e.value, (int, float)) and float(e.value) == int(e.value): return (f"({int(e.value)} : Q)", "qlit")
        if isinstance(e, ast.Call):
            f = U(e.func)
            if f == "len" and len(e.args) == 1:
                if U(e.args[0]) == "test": return ("T.length", "nat")
                a = self.ex(e.args[0], env)
                if a[1] in ("ids", "bools", "idx", "qs"): return (f"({a[0]}).length", "nat")
            if f == "np.isin" and len(e.args) == 2 and U(e.args[1]) == "test.ids()":
                a = self.ex(e.args[0], env)
                if a[1] == "ids": return (f"(({a[0]}).map (LK.Metric.isRel T))", "bools")
            if f == "np.any" and len(e.args) == 1:
                a = self.ex(e.args[0], env)
                if a[1] == "bools": return (f"(({a[0]}).any id)", "bool")
            if f == "np.nonzero" and len(e.args) == 1:
                a = self.ex(e.args[0], env)
                if a[1] == "bools": return (f"(trueIdx {a[0]})", "idx")
            if f == "array_dcg" and len(e.args) == 2 and U(e.args[1]) == "self.discount":
                a0 = e.args[0]
                if isinstance(a0, ast.Call) and U(a0.func) == "np.require" and len(a0.args) == 2 and U(a0.args[1]) == "np.float32": a0 = a0.args[0]
                if isinstance(a0, ast.Attribute) and a0.attr == "values":
                    sv = self.ex(a0.value, env)
                    if sv[1] == "series": return (f"(LK.Metric.arrayDcg disc (seriesValues {sv[0]}))", "q")
                a = self.ex(a0, env)
                if a[1] == "qs": return (f"(LK.Metric.arrayDcg disc {a[0]})", "q")
            if f == "fixed_dcg" and len(e.args) == 2 and U(e.args[1]) == "self.discount":
                n = self.ex(e.args[0], env)
                if n[1] == "nat": return (f"(LK.Metric.fixedDcg disc {n[0]})", "q")
            if f == "np.zeros_like" and len(e.args) == 1:
                a = self.ex(e.args[0], env)
                if a[1] == "ids": return (f"(zerosLike {a[0]})", "qs")
            if isinstance(e.func, ast.Attribute) and e.func.attr == "nlargest" and not e.args and [(k.arg, U(k.value)) for k in e.keywords] == [("n", "self.k")] and "__k" in env:
                sv = self.ex(e.func.value, env)
                if sv[1] == "series": return (f"(seriesNLargest {env['__k'][0]} {sv[0]})", "series")
            if isinstance(e.func, ast.Attribute) and e.func.attr == "sort_values" and not e.args and [(k.arg, U(k.value)) for k in e.keywords] == [("ascending", "False")]:
                sv = self.ex(e.func.value, env)
                if sv[1] == "series": return (f"(seriesSortDesc {sv[0]})", "series")
            if f == "np.power" and len(e.args) == 2 and isinstance(e.args[1], ast.Call) and U(e.args[1].func) == "np.arange" and len(e.args[1].args) == 1:
                b, n = self.ex(e.args[0], env), self.ex(e.args[1].args[0], env)
                if b[1] == "q" and n[1] == "nat": return (f"(powers {b[0]} {n[0]})", "qs")
            if f == "np.sum" and len(e.args) == 1:
                a = self.ex(e.args[0], env)
                if a[1] == "qs": return (f"(sumQs {a[0]})", "q")
            if f == "min" and len(e.args) == 2:
                a, b = self.ex(e.args[0], env), self.ex(e.args[1], env)
                if a[1] == "nat" and b[1] == "nat": return (f"(min {a[0]} {b[0]})", "nat")
            if isinstance(e.func, ast.Attribute) and e.func.attr == "sum" and not e.args:
                a = self.ex(e.func.value, env)
                if a[1] == "bools": return (f"(LK.Metric.countTrue {a[0]})", "nat")
        if isinstance(e, ast.Attribute) and e.attr == "values" and isinstance(e.value, ast.Call) and isinstance(e.value.func, ast.Attribute) and e.value.func.attr == "reindex" \
                and len(e.value.args) == 1 and [(k.arg, U(k.value)) for k in e.value.keywords] == [("fill_value", "0")]:
            sv, it = self.ex(e.value.func.value, env), self.ex(e.value.args[0], env)
            if sv[1] == "series" and it[1] == "ids": return (f"(reindex0 {sv[0]} {it[0]})", "qs")
        if isinstance(e, ast.Subscript):
            b = self.ex(e.value, env)
            if b[1] == "idx" and U(e.slice) == "0": return (f"(({b[0]}).headD 0)", "nat")
            if b[1] == "qs" and isinstance(e.slice, ast.Slice) and e.slice.lower is None and e.slice.step is None and e.slice.upper is not None:
                n = self.ex(e.slice.upper, env)
                if n[1] == "nat": return (f"(({b[0]}).take {n[0]})", "qs")
            if b[1] == "qs":
                m = self.ex(e.slice, env)
                if m[1] == "bools": return (f"(indexMask {b[0]} {m[0]})", "qs")
        if isinstance(e, ast.BinOp):
            l, r = self.ex(e.left, env), self.ex(e.right, env)
            num = lambda t: t[0] if t[1] in ("q", "qlit") else (f"(({t[0]} : Nat) : Q)" if t[1] == "nat" else None)
            if isinstance(e.op, ast.Div) and num(l) and num(r): return (f"(LK.Metric.qdiv {num(l)} {num(r)})", "oq")
            if isinstance(e.op, ast.Add) and num(l) and num(r): return (f"({num(l)} + {num(r)})", "q")
            if isinstance(e.op, ast.Sub) and num(l) and num(r): return (f"({num(l)} - {num(r)})", "q")
            if isinstance(e.op, ast.Mult) and num(l) and num(r): return (f"({num(l)} * {num(r)})", "q")
        if u == "self.k" and "__k" in env: return (env["__k"][0], "nat")
        if isinstance(e, ast.IfExp) and U(e.test) in ("self.k is None", "self.k is not None"):
            # a choice on whether a cut-off is configured: the cut-off is a natural number in the branch that has one
            absent, present = (e.body, e.orelse) if U(e.test) == "self.k is None" else (e.orelse, e.body)
            a, b = self.ex(absent, env), self.ex(present, {**env, "__k": ("kk", "nat")})
            if a[1] == "nat" and b[1] == "nat": return (f"(match k with | none => {a[0]} | some kk => {b[0]})", "nat")
        if isinstance(e, ast.IfExp):
            c = self.ex(e.test, env); a, b = self.ex(e.body, env), self.ex(e.orelse, env)
            if c[1] == "bool" and a[1] in ("q", "qlit") and b[1] in ("q", "qlit"): return (f"(if {c[0]} then {a[0]} else {b[0]})", "q")
        raise Unsupported(f"expression `{u[:70]}`")

    def ret(self, v):
        if v[1] in ("q", "qlit"): return f"some {v[0]}"
        if v[1] == "oq": return v[0]
        if v[1] == "nat": return f"some (({v[0]} : Nat) : Q)"
        raise Unsupported(f"return of type {v[1]}")

    def block(self, stmts, env, ind):
        pad = "  " * ind
        if not stmts: raise Unsupported("no return")
        s, rest = stmts[0], list(stmts[1:])
        if isinstance(s, ast.Expr) and isinstance(s.value, ast.Constant): return self.block(rest, env, ind)
        if isinstance(s, ast.Return): return pad + self.ret(self.ex(s.value, env))
        if isinstance(s, ast.Assign) and len(s.targets) == 1:
            t = s.targets[0]
            if isinstance(t, ast.Tuple) and len(t.elts) == 1 and isinstance(t.elts[0], ast.Name):
                v = self.ex(s.value, env)
                if v[1] == "idx": return f"{pad}let {t.elts[0].id} := {v[0]}\n" + self.block(rest, {**env, t.elts[0].id: (t.elts[0].id, "idx")}, ind)
            if isinstance(t, ast.Name):
                v = self.ex(s.value, env)
                if v[1] == "testids": raise Unsupported("test ids bound to a name")
                nm = t.id if t.id != "max" else "max_"
                return f"{pad}let {nm} := {v[0]}\n" + self.block(rest, {**env, t.id: (nm, "q" if v[1] == "qlit" else v[1])}, ind)
            # scores[mask] = c
            if isinstance(t, ast.Subscript) and isinstance(t.value, ast.Name) and env.get(t.value.id, ("", ""))[1] == "qs":
                m, c = self.ex(t.slice, env), self.ex(s.value, env)
                if m[1] == "bools" and c[1] in ("q", "qlit"):
                    x = t.value.id
                    return f"{pad}let {x} := maskAssign {env[x][0]} {m[0]} {c[0]}\n" + self.block(rest, {**env, x: (x, "qs")}, ind)
            raise Unsupported(f"line {s.lineno}: {U(s)[:80]}")
        if isinstance(s, ast.If):
            u = U(s.test)
            if u == "self.gain":
                return f"{pad}if gainGiven then\n" + self.block(list(s.body) + rest, env, ind + 1) + f"\n{pad}else\n" + self.block(list(s.orelse) + rest, env, ind + 1)
            if u.endswith(" is None") and len(s.body) == 1 and isinstance(s.body[0], ast.Raise) and not s.orelse and env.get(u[:-8], ("", ""))[1] == "series":
                self.notes = getattr(self, "notes", []) + [f"line {s.lineno}: `{u}` → raise: the test items are assumed to carry the gain field"]
                return self.block(rest, env, ind)
            if u == "self.k":
                th = self.block(list(s.body) + rest, {**env, "__k": ("kk", "nat")}, ind + 3)
                el = self.block(list(s.orelse) + rest, env, ind + 3)
                el2 = self.block(list(s.orelse) + rest, env, ind + 2)
                return f"{pad}match k with\n{pad}  | some kk =>\n{pad}    if kk ≠ 0 then\n{th}\n{pad}    else\n{el}\n{pad}  | none =>\n{el2}"
            if u.startswith("self.k and self.k < ") and len(s.body) == 1 and U(s.body[0]).endswith("= self.k") and not s.orelse:
                x = U(s.body[0]).split(" = ")[0]
                if env.get(x, ("", ""))[1] == "nat" and u == f"self.k and self.k < {x}":
                    return (f"{pad}let {x} := (match k with | some kk => if kk ≠ 0 ∧ kk < {env[x][0]} then kk else {env[x][0]} | none => {env[x][0]})\n" + self.block(rest, {**env, x: (x, "nat")}, ind))
            # the cut-off on the number of relevant items
            if u.startswith("self.k is not None and self.k < ") and len(s.body) == 1 and U(s.body[0]).endswith("= self.k") and not s.orelse:
                x = U(s.body[0]).split(" = ")[0]
                if env.get(x, ("", ""))[1] == "nat" and u == f"self.k is not None and self.k < {x}":
                    return (f"{pad}let {x} := (match k with | some kk => if kk < {env[x][0]} then kk else {env[x][0]} | none => {env[x][0]})\n" + self.block(rest, {**env, x: (x, "nat")}, ind))
            if u == "self.normalize":
                return f"{pad}if normalize then\n" + self.block(list(s.body) + rest, env, ind + 1) + f"\n{pad}else\n" + self.block(list(s.orelse) + rest, env, ind + 1)
            if isinstance(s.test, ast.Compare) and len(s.test.ops) == 1 and isinstance(s.test.ops[0], ast.Eq) and U(s.test.comparators[0]) == "0":
                a = self.ex(s.test.left, env)
                if a[1] == "nat": return f"{pad}if {a[0]} = 0 then\n" + self.block(list(s.body) + rest, env, ind + 1) + f"\n{pad}else\n" + self.block(list(s.orelse) + rest, env, ind + 1)
            if isinstance(s.test, ast.Call) and U(s.test.func) == "len":
                a = self.ex(s.test, env)
                return f"{pad}if {a[0]} ≠ 0 then\n" + self.block(list(s.body) + rest, env, ind + 1) + f"\n{pad}else\n" + self.block(list(s.orelse) + rest, env, ind + 1)
            raise Unsupported(f"line {s.lineno}: if {u}")
        raise Unsupported(f"line {s.lineno}: {U(s)[:80]}")

SITES = [("_hit.py", "Hit", "hitT", ""), ("_pr.py", "Precision", "precisionT", ""), ("_pr.py", "Recall", "recallT", ""),
         ("_recip.py", "RecipRank", "recipRankT", ""), ("_rbp.py", "RBP", "rbpT", " (pat : Q) (normalize : Bool)"),
         ("_dcg.py", "NDCG", "ndcgT", " (disc : Nat → Q) (gainGiven : Bool)"), ("_pop.py", "MeanPopRank", "meanPopRankT", " (R : List (Nat × Q))")]

def generate(src_root):
    parts = []; notes = []
    for fname, cls, nm, extra in SITES:
        rel = "metrics/ranking/" + fname; src = open(os.path.join(src_root, rel)).read(); mod = ast.parse(src)
        c = next((x for x in mod.body if isinstance(x, ast.ClassDef) and x.name == cls), None)
        if c is None: raise Unsupported(f"{cls} not found")
        fn = [m for m in c.body if isinstance(m, ast.FunctionDef) and m.name == "measure_list"][-1]
        r_ = R(); body = r_.block(fn.body, {"recs": ("L", "ids")}, 1)
        parts.append(f"def {nm} (k : Option Nat){extra} (L : List Nat) (T : List (Nat × Q)) : Option Q :=\n{body}\n")
        notes.append(f"* `{nm}` ← {rel} {cls}.measure_list, source sha256/64 {hashlib.sha256(ast.get_source_segment(src, fn).encode()).hexdigest()[:16]}" + "".join(f"\n    - {x}" for x in getattr(r_, "notes", [])))
    return ("import LK.Model.RankOps\n/-! GENERATED by translate/py2lean_rank.py on every run of `./check C06`; do not edit.\n" + "\n".join(notes)
            + "\n-/\nset_option linter.unusedVariables false\nnamespace LK.Gen.RankC06\nopen LK.RankOps LK.Metric\n\n" + "\n".join(parts) + "\nend LK.Gen.RankC06\n")

if __name__ == "__main__":
    print(generate(sys.argv[1] if len(sys.argv) > 1 else "/repo/src/lenskit"))
