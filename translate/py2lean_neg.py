"""Translate negative sampling with verification (`MatrixRelationshipSet.sample_negatives`, `_check_negatives`,
`_check_negatives_and_resample`, data/relationships.py) into one structurally recursive Lean function (C20).

The three methods call each other; the translation inlines `_check_negatives_and_resample` and `_check_negatives` into the one-dimensional,
verified path of `sample_negatives` and recurses on the attempt budget.  Random draws are an explicit input (one list per `rng.choice` call),
as in the hand-written model.  What is read off the source, so that a change there changes the generated function:
  * what is drawn and how a draw becomes a column, per weighting (`rng.choice(self.n_cols, …)`; `rng.choice(self._table.num_rows, …)` + `ccol[trows]`);
  * the test that marks a pair as observed (`locs >= 0` on the positions returned by the pair index);
  * the guard on the budget (`max_attempts > 0`) and the budget handed to the re-draw (`max_attempts - 1`) — together they must make the
    recursion structural, otherwise the translation is refused (a re-draw that does not use up budget need not terminate);
  * the rows re-drawn (`rows[non_neg]`), where the re-drawn columns go (`columns[non_neg] = …`), and the weighting handed on;
  * that a warning is raised exactly in the branch where the budget is exhausted.
"""
import ast, hashlib, os, sys

class Unsupported(Exception): pass
U = ast.unparse

def _method(cls, name):
    f = [m for m in cls.body if isinstance(m, ast.FunctionDef) and m.name == name]
    if not f: raise Unsupported(f"{name} not found")
    return f[-1]

def translate(src_root):
    rel = "data/relationships.py"; src = open(os.path.join(src_root, rel)).read(); mod = ast.parse(src)
    cls = next((c for c in mod.body if isinstance(c, ast.ClassDef) and c.name == "MatrixRelationshipSet"), None)
    if cls is None: raise Unsupported("MatrixRelationshipSet not found")
    sn, cn, cr = _method(cls, "sample_negatives"), _method(cls, "_check_negatives"), _method(cls, "_check_negatives_and_resample")
    notes = []
    # ---- the draw, per weighting
    mt = next((s for s in sn.body if isinstance(s, ast.Match) and U(s.subject) == "weighting"), None)
    if mt is None: raise Unsupported("no `match weighting` in sample_negatives")
    draw = {}
    for case in mt.cases:
        pats = [p.value.value for p in (case.pattern.patterns if isinstance(case.pattern, ast.MatchOr) else [case.pattern]) if isinstance(p, ast.MatchValue) and isinstance(p.value, ast.Constant)]
        body = [U(s) for s in case.body]
        if "uniform" in pats:
            if body != ["columns = rng.choice(self.n_cols, size=shape, replace=True)"]: raise Unsupported("uniform draw: " + " | ".join(body))
            draw["uniform"] = "d"
        elif "popular" in pats or "popularity" in pats:
            if body != ["ccol = self._table.column(num_col_name(self.col_type)).to_numpy()", "trows = rng.choice(self._table.num_rows, size=shape, replace=True)", "columns = ccol[trows]"]:
                raise Unsupported("popularity draw: " + " | ".join(body))
            draw["popular"] = "d.map (fun x => m.storedCols.getD x 0)"
    if set(draw) != {"uniform", "popular"}: raise Unsupported("weightings handled: " + str(sorted(draw)))
    # ---- verification hands the drawn columns to the re-sampler with the caller's budget and weighting
    ver = next((s for s in sn.body if isinstance(s, ast.If) and U(s.test) == "verify"), None)
    if ver is None: raise Unsupported("no `if verify:`")
    inner = ver.body[0] if len(ver.body) == 1 and isinstance(ver.body[0], ast.If) and U(ver.body[0].test) == "n is None" else None
    if inner is None or [U(s) for s in inner.body] != ["self._check_negatives_and_resample(rows, columns, max_attempts, rng, weighting)"]:
        raise Unsupported("the one-dimensional verified path does not call the re-sampler with (rows, columns, max_attempts, rng, weighting)")
    if U(sn.body[-1]) != "return columns": raise Unsupported("sample_negatives does not return the columns")
    # ---- observed test
    cb = [U(s) for s in cn.body if not (isinstance(s, ast.Expr) and isinstance(s.value, ast.Constant))]
    if cb[:2] != ["nums = self._rc_combined_nums(rows, columns)", "locs = self.rc_index.get_indexer_for(nums)"] or len(cb) != 3: raise Unsupported("_check_negatives: " + " | ".join(cb))
    ret = cn.body[-1].value
    if not (isinstance(ret, ast.Compare) and U(ret.left) == "locs" and len(ret.ops) == 1 and U(ret.comparators[0]) == "0"): raise Unsupported("_check_negatives returns " + U(ret))
    cmp_ = {ast.GtE: "0 ≤", ast.Gt: "0 <"}.get(type(ret.ops[0]))
    if cmp_ is None: raise Unsupported("_check_negatives compares with " + U(ret))
    # ---- re-sampler
    rb = [s for s in cr.body if not (isinstance(s, ast.Expr) and (isinstance(s.value, ast.Constant) or U(s.value).startswith("_log.")))]
    if len(rb) != 2 or U(rb[0]) != "non_neg = self._check_negatives(rows, columns)" or not isinstance(rb[1], ast.If) or U(rb[1].test) != "np.any(non_neg)" or rb[1].orelse:
        raise Unsupported("_check_negatives_and_resample: " + " | ".join(U(s)[:50] for s in rb))
    g = rb[1].body
    if len(g) != 1 or not isinstance(g[0], ast.If) or U(g[0].test) != "max_attempts > 0": raise Unsupported("budget guard: " + " | ".join(U(s)[:60] for s in g))
    redo, give_up = g[0].body, g[0].orelse
    if len(redo) != 1 or not isinstance(redo[0], ast.Assign) or U(redo[0].targets[0]) != "columns[non_neg]": raise Unsupported("re-draw: " + " | ".join(U(s)[:60] for s in redo))
    call = redo[0].value
    if not (isinstance(call, ast.Call) and U(call.func) == "self.sample_negatives" and len(call.args) == 1 and U(call.args[0]) == "rows[non_neg]"): raise Unsupported("re-draw call: " + U(call)[:80])
    kw = {k.arg: U(k.value) for k in call.keywords}
    if kw.get("verify") != "True": raise Unsupported("the re-draw is not verified")
    if kw.get("max_attempts") != "max_attempts - 1": raise Unsupported(f"the re-draw gets the budget `{kw.get('max_attempts')}`: the recursion is not structural in the budget (it need not terminate)")
    w_next = "w" if kw.get("weighting") == "weighting" else ".uniform"
    if kw.get("weighting") != "weighting": notes.append("the re-draw does not hand the weighting on: it falls back to the default, uniform")
    if len(give_up) != 1 or not U(give_up[0]).startswith("warnings.warn("): raise Unsupported("exhausted budget: " + " | ".join(U(s)[:60] for s in give_up))
    seg = "".join(ast.get_source_segment(src, f) for f in (sn, cn, cr))
    body = f'''def sampleT (m : Mat) (w : Weighting) : Nat → List Nat → List (List Nat) → Option Out
  | _, _, [] => none
  | a, rows, d :: ds =>
    if d.length ≠ rows.length then none
    else
      let columns := match w with
        | .uniform => {draw["uniform"]}
        | .popular => {draw["popular"]}
      let non_neg := List.zipWith (fun r c => decide ({cmp_} pairLoc m r c)) rows columns
      if non_neg.any id then
        match a with
        | 0 => some {{ cols := columns, warned := true, rest := ds }}
        | a' + 1 =>
          match sampleT m {w_next} a' (selectRows rows non_neg) ds with
          | none => none
          | some o => some {{ cols := scatter columns non_neg o.cols, warned := o.warned, rest := o.rest }}
      else some {{ cols := columns, warned := false, rest := ds }}
'''
    return ("import LK.Model.NegOps\n/-! GENERATED by translate/py2lean_neg.py on every run of `./check C20`; do not edit.\n"
            f"* `sampleT` ← {rel} MatrixRelationshipSet.sample_negatives / _check_negatives / _check_negatives_and_resample (1-D verified path), source sha256/64 {hashlib.sha256(seg.encode()).hexdigest()[:16]}\n"
            + "".join(f"    - {n}\n" for n in notes) + "-/\nset_option linter.unusedVariables false\nnamespace LK.Gen.NegC20\nopen LK.Neg\n\n" + body + "\nend LK.Gen.NegC20\n")

if __name__ == "__main__":
    print(translate(sys.argv[1] if len(sys.argv) > 1 else "/repo/src/lenskit"))
