"""Translate the builder's edit operations (pipeline/builder.py: `connect`, `clear_inputs`, `replace_component`) into Lean (C14, C02) —
a strict statement matcher.  A builder is its table `es` from component names to the *addresses* of their wiring dictionaries on the
heap of `LK/Model/Heap.lean`; an input is already resolved to the name it is wired to (`n.name` for a node, the name of the literal
node `self.literal(n)` creates for anything else — `resolve` below says which).
  connect             edges = self._edges.get(node.name, None); if edges is None: self._edges[node.name] = edges = {};
                      for k, n in inputs.items(): edges[k] = <name>           (the dictionary is changed in place)
  clear_inputs        self._edges[node] = {}                                  (a new dictionary; the old one is left as it is)
  replace_component   the node is replaced, then `self.connect(node, **inputs)` — nothing is cleared
"""
import ast, hashlib, os, sys

class Unsupported(Exception): pass
U = ast.unparse

def strip(stmts):
    return [s for s in stmts if not (isinstance(s, ast.Expr) and isinstance(s.value, ast.Constant)) and not isinstance(s, ast.Assert)]

def expect(stmts, texts, where):
    got = [U(s) for s in stmts]
    same = lambda g, t: g in t if isinstance(t, tuple) else g == t
    if len(got) != len(texts) or not all(same(g, t) for g, t in zip(got, texts)):
        bad = next((g for g, t in zip(got, texts) if not same(g, t)), None) or (got[len(texts)] if len(got) > len(texts) else "a statement is missing")
        raise Unsupported(f"{where}: `{bad[:90]}`")

def method(mod, cls, name):
    c = next((s for s in mod.body if isinstance(s, ast.ClassDef) and s.name == cls), None)
    if c is None: raise Unsupported(f"class {cls} not found")
    fns = [f for f in c.body if isinstance(f, ast.FunctionDef) and f.name == name and not any(U(d) == "overload" for d in f.decorator_list)]
    if len(fns) != 1: raise Unsupported(f"{cls}.{name}: {len(fns)} definitions")
    return fns[0], strip(fns[0].body)

def translate(src_root, pid="C14"):
    rel = "pipeline/builder.py"; src = open(os.path.join(src_root, rel)).read(); mod = ast.parse(src); segs = []
    # connect
    fn, b = method(mod, "PipelineBuilder", "connect"); segs.append(ast.get_source_segment(src, fn))
    if len(b) != 5: raise Unsupported(f"connect: {len(b)} statements (expected 5)")
    expect(b[:1], ["if isinstance(obj, Node):\n    node = obj\nelse:\n    node = self.node(obj)"], "connect: the node")
    if not (isinstance(b[1], ast.If) and U(b[1].test) == "not isinstance(node, ComponentNode)" and len(b[1].body) == 1 and isinstance(b[1].body[0], ast.Raise) and not b[1].orelse):
        raise Unsupported("connect: only component nodes are wired")
    expect(b[2:4], ["edges = self._edges.get(node.name, None)", "if edges is None:\n    self._edges[node.name] = edges = {}"], "connect: the wiring dictionary")
    lp = b[4]
    if not isinstance(lp, ast.For) or U(lp.target) != "(k, n)" or U(lp.iter) != "inputs.items()" or lp.orelse: raise Unsupported("connect: the loop over the inputs")
    lb = strip(lp.body)
    if len(lb) != 1 or not isinstance(lb[0], ast.If) or U(lb[0].test) != "isinstance(n, Node)": raise Unsupported("connect: node / literal dispatch")
    expect(strip(lb[0].body), ["n = cast(Node[Any], n)", "self._check_member_node(n)", "edges[k] = n.name"], "connect: a node input")
    expect(strip(lb[0].orelse), ["lit = self.literal(n)", "edges[k] = lit.name"], "connect: a literal input")
    # clear_inputs
    fn, b = method(mod, "PipelineBuilder", "clear_inputs"); segs.append(ast.get_source_segment(src, fn))
    expect(b, ["if isinstance(node, Node):\n    node = node.name", "self._edges[node] = {}"], "clear_inputs")
    # replace_component
    fn, b = method(mod, "PipelineBuilder", "replace_component"); segs.append(ast.get_source_segment(src, fn))
    expect(b, ["if isinstance(name, Node):\n    name = name.name", "node = ComponentNode[ND].create(name, comp, config)", "self._nodes[name] = node", "self.connect(node, **inputs)", "return node"], "replace_component")
    text = """/-- an input as given: a node of the builder, or any other object (it becomes a literal node named after its content) -/
inductive Input
  | node (name : String)
  | value (litName : String)

/-- `edges[k] = n.name` / `edges[k] = self.literal(n).name`: a node is wired by its name; anything else — a string that spells a node's
    name included — by the name of its literal node -/
def resolve : Input → String
  | .node name => name
  | .value litName => litName

/-- `connect`: the component's wiring dictionary (a new empty one if it has none yet) is changed in place, input by input -/
def connectT (h : Heap) (es : List (String × Nat)) (node : String) (inputs : List (String × Input)) : Heap × List (String × Nat) :=
  let edges := lookupE es node
  let (h, es, edges) : Heap × List (String × Nat) × Nat :=
    match edges with
    | some a => (h, es, a)
    | none =>
      let (h', a) := h.alloc []
      (h', setE es node a, a)
  (inputs.foldl (fun h kn => h.set edges (dictSet (h.cell edges) kn.1 (resolve kn.2))) h, es)

/-- `clear_inputs`: the component gets a new, empty wiring dictionary -/
def clearInputsT (h : Heap) (es : List (String × Nat)) (node : String) : Heap × List (String × Nat) :=
  let (h', a) := h.alloc []
  (h', setE es node a)

/-- `replace_component`: the node object is replaced (the wiring table is keyed by name and is not touched), then the given inputs are
    connected — the others are retained -/
def replaceComponentT (h : Heap) (es : List (String × Nat)) (name : String) (inputs : List (String × Input)) : Heap × List (String × Nat) :=
  connectT h es name inputs
"""
    seg = "\n".join(segs)
    return (f"import LK.Model.Heap\n/-! GENERATED by translate/py2lean_build.py on every run of `./check {pid}`; do not edit.\n"
            f"* `connectT`, `clearInputsT`, `replaceComponentT` ← {rel} PipelineBuilder.connect, clear_inputs, replace_component; source sha256/64 {hashlib.sha256(seg.encode()).hexdigest()[:16]}\n"
            "    - a builder is its table from component names to heap addresses of wiring dictionaries; membership and type checks that only raise are not modelled\n-/\n"
            f"set_option linter.unusedVariables false\nnamespace LK.Gen.Build{pid}\nopen LK.Heap\n\n" + text + f"\nend LK.Gen.Build{pid}\n")

if __name__ == "__main__":
    print(translate(sys.argv[1] if len(sys.argv) > 1 else "/repo/src/lenskit", sys.argv[2] if len(sys.argv) > 2 else "C14"))
