"""Translate the gather / mask / scatter part of a scorer's `__call__` into Lean, statement by statement, over the array
combinators of `LK/Model/ArrayOps.lean` (C04).

Recognised statements (names are the scorer's own; anything else between the first recognised statement and the `return` makes the
function untranslatable):
  X = items.numbers([fmt,] vocabulary=…, missing='negative')      → numbersNeg num L          (−1 for an unknown item)
  M = X >= 0                                                       → geZero X
  G = X[M]  |  X[X >= 0]                                           → indexMask X M
  R = T[G, :] | T[G] | T[0, G] | T[X[M], :] …                      → gather tbl G              (T does not depend on the items;
                                                                      a row-wise product applied afterwards is part of `tbl`)
  V = R @ u | np.dot(R, u.T).reshape(-1) | torch.mv(R, u) …        → (row-wise: stays a gather of `tbl`)
  S = np.full(len(items) | (len(items),), np.nan, …)               → fullNan L.length          (torch.full likewise)
  S[M] = V   |  S[X >= 0] = V                                      → setMask S M V
  S += <per-item expression>                                       → recorded as an assumption (bias terms are added item by item)
  return ItemList(items, scores=S)                                 → withScores L S
The generated definition is proved equal to `LK.Scatter.scoreList` (the per-item map) in `LK/Proofs/ScatterC04.lean`.
"""
import ast, hashlib, os, sys

class Unsupported(Exception): pass

def _is_numbers_call(e):
    if not (isinstance(e, ast.Call) and isinstance(e.func, ast.Attribute) and e.func.attr == "numbers" and isinstance(e.func.value, ast.Name)): return False
    kw = {k.arg: k.value for k in e.keywords}
    return "vocabulary" in kw and isinstance(kw.get("missing"), ast.Constant) and kw["missing"].value == "negative"

def _strip(e):
    """drop value-preserving conversions: torch.from_numpy(x), np.asarray(x), x.to(…), x.cpu(), x.numpy()"""
    while True:
        if isinstance(e, ast.Call) and ast.unparse(e.func) in ("torch.from_numpy", "np.asarray", "torch.as_tensor") and len(e.args) == 1: e = e.args[0]; continue
        if isinstance(e, ast.Call) and isinstance(e.func, ast.Attribute) and e.func.attr in ("to", "cpu", "numpy") and ast.unparse(e.func.value) not in ("torch", "np"): e = e.func.value; continue
        return e

def _mentions(e, names): return any(isinstance(n, ast.Name) and n.id in names for n in ast.walk(e))

def translate_call(src_root, rel, cls, lean_name, assume=None):
    assume = assume or {}          # truth values fixed for data-dependent choices of evaluation order (each value gets its own definition)
    path = os.path.join(src_root, rel); src = open(path).read(); mod = ast.parse(src)
    c = next((x for x in mod.body if isinstance(x, ast.ClassDef) and x.name == cls), None)
    if c is None: raise Unsupported(f"class {cls} not found")
    fn = [m for m in c.body if isinstance(m, ast.FunctionDef) and m.name == "__call__"]
    if not fn: raise Unsupported(f"{cls}.__call__ not found")
    fn = fn[-1]
    itemsvar = next((a.arg for a in fn.args.args + fn.args.kwonlyargs if a.arg == "items"), None)
    if itemsvar is None: raise Unsupported("no `items` parameter")
    wrapped = None     # (variable holding ItemList(items, scores=S), S)
    kind = {}          # variable → ("nums",) | ("mask", x) | ("good", x) | ("pw", x) | ("full",) | ("scat", x)
    lines = []; notes = []; started = False; result = None
    dep = {itemsvar}   # variables that depend on the item list
    def mask_of(e):
        if isinstance(e, ast.Name) and kind.get(e.id, ("",))[0] == "mask": return kind[e.id][1], e.id
        if isinstance(e, ast.Compare) and len(e.ops) == 1 and isinstance(e.ops[0], ast.GtE) and isinstance(e.left, ast.Name) and kind.get(e.left.id, ("",))[0] == "nums" \
                and isinstance(e.comparators[0], ast.Constant) and e.comparators[0].value == 0:
            return e.left.id, f"(geZero {e.left.id})"
        return None
    def good_of(e):
        e = _strip(e)
        if isinstance(e, ast.Name) and kind.get(e.id, ("",))[0] == "good": return kind[e.id][1], e.id
        if isinstance(e, ast.Subscript) and isinstance(e.value, ast.Name) and kind.get(e.value.id, ("",))[0] == "nums":
            m = mask_of(e.slice)
            if m and m[0] == e.value.id: return e.value.id, f"(indexMask {e.value.id} {m[1]})"
        return None
    def pw_of(e):
        """a value that is `tbl` applied to each entry of a compacted number array, possibly followed by a row-wise product"""
        e = _strip(e)
        # a method of the scorer applied to the compacted item numbers and item-independent operands: one value per gathered item
        if isinstance(e, ast.Call) and isinstance(e.func, ast.Attribute) and ast.unparse(e.func.value) == "self" and not e.keywords:
            gs = [good_of(a_) for a_ in e.args]
            if sum(1 for g_ in gs if g_) == 1 and all(g_ or not _mentions(a_, dep) for g_, a_ in zip(gs, e.args)):
                g_ = next(g_ for g_ in gs if g_)
                notes.append(f"line {e.lineno}: `{ast.unparse(e)}` is taken as one value per gathered item (the scorer's own kernel), part of `tbl`")
                return g_[0], f"(gather tbl wrap {g_[1]})"
        if isinstance(e, ast.Name) and kind.get(e.id, ("",))[0] == "pw": return kind[e.id][1], e.id
        if isinstance(e, ast.Subscript) and not _mentions(e.value, dep):
            idx = e.slice.elts if isinstance(e.slice, ast.Tuple) else [e.slice]
            goods = [good_of(i) for i in idx]
            hits = [g for g in goods if g]
            others_ok = all(g or (isinstance(i, ast.Slice) and i.lower is None and i.upper is None) or (isinstance(i, ast.Constant)) for g, i in zip(goods, idx))
            if len(hits) == 1 and others_ok: return hits[0][0], f"(gather tbl wrap {hits[0][1]})"
        # row-wise products of a gathered block with item-independent operands
        cands = []
        if isinstance(e, ast.BinOp) and isinstance(e.op, ast.MatMult): cands = [e.left, e.right]
        elif isinstance(e, ast.Call):
            f = e.func; inner = e
            if isinstance(f, ast.Attribute) and f.attr == "reshape": inner = f.value; f = inner.func if isinstance(inner, ast.Call) else None
            if isinstance(inner, ast.Call) and isinstance(inner.func, ast.Attribute) and inner.func.attr in ("dot", "mv", "matmul"): cands = list(inner.args)
        if cands:
            pws = [pw_of(c_) for c_ in cands]
            if sum(1 for p in pws if p) == 1 and all(p or not _mentions(c_, dep) for p, c_ in zip(pws, cands)):
                p = next(p for p in pws if p)
                notes.append(f"line {e.lineno}: `{ast.unparse(e)}` is taken as a row-wise product (one value per gathered row), part of `tbl`")
                return p
        return None
    def flat(stmts):
        for st in stmts:
            if isinstance(st, ast.With): yield from flat(st.body)          # `with torch.inference_mode():` and the like
            elif isinstance(st, ast.If) and isinstance(st.test, ast.Name) and st.test.id in assume: yield from flat(st.body if assume[st.test.id] else st.orelse)
            else: yield st
    for s in flat(fn.body):
        if isinstance(s, ast.Return) and started and wrapped is not None:
            v = s.value
            if isinstance(v, ast.Name) and v.id == wrapped[0]: result = wrapped[1]; break
            if isinstance(v, ast.Call) and any(isinstance(a_, ast.Name) and a_.id == wrapped[0] for a_ in v.args):
                notes.append(f"line {s.lineno}: `{ast.unparse(s)}` post-processes the scored list item by item (bias terms; checked under C08 / C10)")
                result = wrapped[1]; break
            raise Unsupported("return: " + ast.unparse(s)[:80])
        if isinstance(s, ast.Return) and started:
            v = s.value
            if not (isinstance(v, ast.Call) and isinstance(v.func, ast.Name) and v.func.id == "ItemList" and len(v.args) == 1 and isinstance(v.args[0], ast.Name) and v.args[0].id == itemsvar):
                raise Unsupported("return: " + ast.unparse(s)[:80])
            kw = {k.arg: k.value for k in v.keywords}
            sc = kw.get("scores")
            if not (isinstance(sc, ast.Name) and kind.get(sc.id, ("",))[0] == "scat"): raise Unsupported("returned scores are not the scattered array")
            result = sc.id; break
        if isinstance(s, ast.Assign) and len(s.targets) == 1:
            t, v = s.targets[0], s.value
            if isinstance(t, ast.Name):
                if _is_numbers_call(v) and v.func.value.id == itemsvar:
                    kind[t.id] = ("nums",); dep.add(t.id); started = True
                    lines.append(f"  let {t.id} := numbersNeg num L"); continue
                if not started: continue
                m = mask_of(v)
                if m and not isinstance(v, ast.Name): kind[t.id] = ("mask", m[0]); dep.add(t.id); lines.append(f"  let {t.id} := geZero {m[0]}"); continue
                g = good_of(v)
                if g and isinstance(_strip(v), ast.Name) and not isinstance(v, ast.Name):          # a converted copy of the compacted numbers
                    kind[t.id] = ("good", g[0]); dep.add(t.id); lines.append(f"  let {t.id} := {g[1]}"); continue
                if g and not isinstance(v, ast.Name): kind[t.id] = ("good", g[0]); dep.add(t.id); lines.append(f"  let {t.id} := {g[1]}"); continue
                p = pw_of(v)
                if p and not isinstance(v, ast.Name): kind[t.id] = ("pw", p[0]); dep.add(t.id); lines.append(f"  let {t.id} := {p[1]}"); continue
                if isinstance(v, ast.Call) and isinstance(v.func, ast.Attribute) and v.func.attr == "full" and v.args:
                    a0 = ast.unparse(v.args[0]); a1 = ast.unparse(v.args[1]) if len(v.args) > 1 else ""
                    if a0 in (f"len({itemsvar})", f"(len({itemsvar}),)") and a1 in ("np.nan", "numpy.nan", "float('nan')", "math.nan", "torch.nan"):
                        kind[t.id] = ("full",); dep.add(t.id); lines.append(f"  let {t.id} := fullNan L.length"); continue
                if isinstance(v, ast.Call) and isinstance(v.func, ast.Name) and v.func.id == "ItemList" and len(v.args) == 1 and isinstance(v.args[0], ast.Name) and v.args[0].id == itemsvar:
                    sc = {k.arg: k.value for k in v.keywords}.get("scores")
                    if isinstance(sc, ast.Name) and kind.get(sc.id, ("",))[0] == "scat": wrapped = (t.id, sc.id); dep.add(t.id); continue
                if t.id in assume and isinstance(v, ast.Compare):
                    notes.append(f"line {s.lineno}: `{ast.unparse(s)}` chooses an order of evaluation; translated once for each outcome (here: {assume[t.id]})"); continue
                if not _mentions(v, dep): continue          # item-independent (the user's row, a bias term of the user …)
                if isinstance(v, ast.Tuple) or (isinstance(v, ast.Call) and isinstance(t, ast.Tuple)): pass
                raise Unsupported(f"line {s.lineno}: {ast.unparse(s)[:80]}")
            if isinstance(t, ast.Subscript) and started and isinstance(t.value, ast.Name) and kind.get(t.value.id, ("",))[0] == "full":
                m = mask_of(t.slice); p = pw_of(v)
                if m and p and m[0] == p[0]:
                    kind[t.value.id] = ("scat", m[0]); lines.append(f"  let {t.value.id} := setMask {t.value.id} {m[1]} {p[1]}"); continue
                raise Unsupported(f"line {s.lineno}: {ast.unparse(s)[:80]}")
            if isinstance(t, ast.Tuple) and started and not any(isinstance(n, ast.Name) and kind.get(n.id) for n in ast.walk(t)):
                # e.g. `biases, _ub = self.bias_.compute_for_items(items, …)`: per-item terms computed elsewhere
                for n in ast.walk(t):
                    if isinstance(n, ast.Name): kind[n.id] = ("peritem",); dep.add(n.id)
                notes.append(f"line {s.lineno}: `{ast.unparse(s)[:70]}` is taken as one value per item (checked under C08 / C10)"); continue
            if not started: continue
            raise Unsupported(f"line {s.lineno}: {ast.unparse(s)[:80]}")
        if isinstance(s, ast.AugAssign) and started and isinstance(s.op, ast.Add) and isinstance(s.target, ast.Name) and kind.get(s.target.id, ("",))[0] == "scat" \
                and isinstance(s.value, ast.Name) and kind.get(s.value.id, ("",))[0] == "peritem":
            notes.append(f"line {s.lineno}: `{ast.unparse(s)}` adds one term per item after the scatter (not part of the translated skeleton)"); continue
        if not started: continue          # the user look-up and early exits before the item numbers are taken
        if isinstance(s, ast.Expr): continue          # logging
        if isinstance(s, ast.Assert): continue
        raise Unsupported(f"line {s.lineno}: {ast.unparse(s)[:80]}")
    if result is None: raise Unsupported("no `return ItemList(items, scores=…)` after the scatter")
    seg = ast.get_source_segment(src, fn)
    body = "\n".join(lines) + f"\n  withScores L {result}"
    return {"lean": f"def {lean_name} {{φ}} (num : Nat → Option Nat) (tbl : Nat → Option Rat) (wrap : Option Rat) (L : List (LK.Scatter.Item φ)) : List (LK.Scatter.Item φ) :=\n{body}\n",
            "notes": list(dict.fromkeys(notes)), "digest": hashlib.sha256(seg.encode()).hexdigest()[:16], "where": f"{rel} {cls}.__call__"}

SCORERS = [("basic/popularity.py", "PopScorer", "popScorerCall"), ("hpf.py", "HPFScorer", "hpfScorerCall"), ("funksvd.py", "FunkSVDScorer", "funkSVDScorerCall"),
           ("als/_common.py", "ALSBase", "alsScorerCall"), ("sklearn/svd.py", "BiasedSVDScorer", "biasedSVDScorerCall"),
           ("flexmf/_base.py", "FlexMFScorerBase", "flexMFScorerCall"),
           ("implicit.py", "BaseRec", "implicitScorerCallMultFirst", {"mult_first": True}), ("implicit.py", "BaseRec", "implicitScorerCallGatherFirst", {"mult_first": False})]

def generate(src_root):
    parts = []; notes = []
    for rel, cls, nm, *rest in SCORERS:
        r = translate_call(src_root, rel, cls, nm, *rest)
        notes.append(f"* `{nm}` ← {r['where']}, source sha256/64 {r['digest']}" + "".join(f"\n    - {a}" for a in r["notes"]))
        parts.append(r["lean"])
    return ("import LK.Model.ArrayOps\n/-! GENERATED by translate/py2lean_scatter.py on every run of `./check C04`; do not edit.\n" + "\n".join(notes) + "\n-/\n"
            "set_option linter.unusedVariables false\nnamespace LK.Gen.ScatterC04\nopen LK.ArrayOps\n\n" + "\n".join(parts) + "\nend LK.Gen.ScatterC04\n")

if __name__ == "__main__":
    print(generate(sys.argv[1] if len(sys.argv) > 1 else "/repo/src/lenskit"))
