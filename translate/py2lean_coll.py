"""Translate the native Parquet layout of item-list collections (data/collection/_base.py) into Lean (C15) — a strict statement matcher:
  record_batches   for batch in chunked(self.items(), batch_size): a key table from the batch's keys, an `items` column from the batch's
                   lists, `yield from tbl.to_batches()`
  save_parquet     (native layout) every record batch is handed to one ParquetWriter, in order
  load_parquet     (native layout) table = dataset.read(); keys = table.drop('items'); lists = table.column('items');
                   for (i, k) in enumerate(keys.to_pylist()): the i-th list is added under the i-th key
A batch is the pair of its key column and its list column; a file is the list of batches written; reading concatenates the columns
(an Arrow chunked column is indexed by the position in the whole table).  The conversion of one list (`to_arrow` / `from_arrow`) is the
parameter `enc` / `dec` — it has its own model (`LK/Model/ItemListArrow.lean`).
"""
import ast, hashlib, os, sys

class Unsupported(Exception): pass
U = ast.unparse

def strip(stmts):
    return [s for s in stmts if not (isinstance(s, ast.Expr) and isinstance(s.value, ast.Constant)) and not isinstance(s, ast.Assert)
            and not (isinstance(s, ast.Expr) and isinstance(s.value, ast.Call) and U(s.value.func).startswith(("_log.", "log.")))]

def expect(stmts, texts, where):
    got = [U(s) for s in stmts]
    same = lambda g, t: g in t if isinstance(t, tuple) else g == t
    if len(got) != len(texts) or not all(same(g, t) for g, t in zip(got, texts)):
        bad = next((g for g, t in zip(got, texts) if not same(g, t)), None) or (got[len(texts)] if len(got) > len(texts) else "a statement is missing")
        raise Unsupported(f"{where}: `{bad[:90]}`")

def method(mod, cls, name):
    c = next((s for s in mod.body if isinstance(s, ast.ClassDef) and s.name == cls), None)
    if c is None: raise Unsupported(f"class {cls} not found")
    fns = [f for f in c.body if isinstance(f, ast.FunctionDef) and f.name == name and not any(U(d) == "overload" for d in f.decorator_list)]
    if len(fns) != 1: raise Unsupported(f"{cls}.{name}: {len(fns)} definitions")
    return fns[0], strip(fns[0].body)

def translate(src_root):
    rel = "data/collection/_base.py"; src = open(os.path.join(src_root, rel)).read(); mod = ast.parse(src); segs = []
    # record_batches
    fn, b = method(mod, "ItemListCollection", "record_batches"); segs.append(ast.get_source_segment(src, fn))
    loops = [s for s in b if isinstance(s, ast.For)]
    if len(loops) != 1 or b[-1] is not loops[0]: raise Unsupported("record_batches: one loop, last")
    pre = b[:-1]
    if not (len(pre) == 1 and isinstance(pre[0], ast.If) and U(pre[0].test) == "columns is None" and [U(s) for s in pre[0].body] == ["columns = self.list_schema"] and not pre[0].orelse):
        raise Unsupported("record_batches: the column-schema default")
    lp = loops[0]
    if U(lp.target) != "batch" or U(lp.iter) != "chunked(self.items(), batch_size)" or lp.orelse: raise Unsupported(f"record_batches: loop header `for {U(lp.target)} in {U(lp.iter)}`")
    expect(strip(lp.body), ["keys = pa.Table.from_pylist([key_dict(k) for k, _il in batch])", "schema = pa.list_(pa.struct(columns))",
                            "tbl = keys.add_column(keys.num_columns, 'items', pa.array([il.to_arrow(type='array', columns=columns) for _k, il in batch], schema))",
                            "yield from tbl.to_batches()"], "record_batches loop")
    # save_parquet: the native part
    fn, b = method(mod, "ItemListCollection", "save_parquet"); segs.append(ast.get_source_segment(src, fn))
    tries = [s for s in b if isinstance(s, ast.Try)]
    if len(tries) != 1 or b[-1] is not tries[0]: raise Unsupported("save_parquet: the writer block")
    k = b.index(tries[0])
    if U(b[k - 1]) != "writer = None": raise Unsupported("save_parquet: `writer = None` before the writer block")
    flat = [s for s in b[:k - 1] if isinstance(s, ast.If) and "flat" in U(s.test)]
    if len(flat) != 1 or U(flat[0].test) != "layout == 'flat'" or not isinstance(flat[0].body[-1], ast.Return): raise Unsupported("save_parquet: the flat layout must leave before the writer block")
    tb = strip(tries[0].body)
    if len(tb) != 1 or not isinstance(tb[0], ast.For) or U(tb[0].target) != "batch" or U(tb[0].iter) != "self.record_batches(batch_size)": raise Unsupported("save_parquet: the loop over the record batches")
    lb = strip(tb[0].body)
    if len(lb) != 2 or not isinstance(lb[0], ast.If) or U(lb[0].test) != "writer is None" or lb[0].orelse or len(lb[0].body) != 1 or not U(lb[0].body[0]).startswith("writer = ParquetWriter(Path(path), batch.schema"):
        raise Unsupported("save_parquet: the writer is opened once, on the first batch")
    expect(lb[1:], ["writer.write_batch(batch)"], "save_parquet loop")
    if tries[0].handlers or [U(s) for s in tries[0].finalbody] != ["if writer is not None:\n    writer.close()"]: raise Unsupported("save_parquet: the writer is closed in `finally`")
    # load_parquet: the native branch
    fn, b = method(mod, "ItemListCollection", "load_parquet"); segs.append(ast.get_source_segment(src, fn))
    chain = [s for s in b if isinstance(s, ast.If) and U(s.test) == "layout == 'native'"]
    if len(chain) != 1: raise Unsupported("load_parquet: the native branch")
    if not any(U(s) == "dataset = ParquetDataset(path)" for s in b[:b.index(chain[0])]): raise Unsupported("load_parquet: `dataset = ParquetDataset(path)`")
    nb = strip(chain[0].body)
    if not (isinstance(nb[0], ast.If) and U(nb[0].test) == "key is not None" and isinstance(nb[0].body[0], ast.Raise)): raise Unsupported("load_parquet: the key check")
    loops = [s for s in nb if isinstance(s, ast.For)]
    if len(loops) != 1: raise Unsupported("load_parquet: one loop expected")
    k = nb.index(loops[0])
    expect(nb[1:k], ["table = dataset.read()", "keys = table.drop('items')", "lists = table.column('items')", "ilc = ListILC(keys.schema.names)"], "load_parquet (native)")
    if U(loops[0].target) != "(i, k)" or U(loops[0].iter) != "enumerate(keys.to_pylist())": raise Unsupported(f"load_parquet: loop header `for {U(loops[0].target)} in {U(loops[0].iter)}`")
    expect(strip(loops[0].body), ["il_data = lists[i].values", "ilc.add(ItemList.from_arrow(il_data), **k)"], "load_parquet loop")
    expect(nb[k + 1:], ["return ilc"], "load_parquet (native) end")
    text = """/-- `record_batches`: one batch per chunk of `batch_size` (key, list) pairs — the keys as a table, the converted lists as its `items` column -/
def recordBatchesT {κ α μ} (enc : α → μ) (items : List (κ × α)) (batch_size : Nat) : List (Batch κ μ) :=
  (chunked batch_size items).map (fun batch =>
    let keys := batch.map (fun kl => kl.1)
    let tbl : Batch κ μ := { keys := keys, items := batch.map (fun kl => enc kl.2) }
    tbl)

/-- `save_parquet` (native): every record batch goes to the one writer, in order -/
def saveParquetT {κ α μ} (enc : α → μ) (items : List (κ × α)) (batch_size : Nat) : List (Batch κ μ) :=
  (recordBatchesT enc items batch_size).foldl (fun written batch => written ++ [batch]) []

/-- `load_parquet` (native): the whole file as one table; the i-th key gets the i-th entry of the `items` column -/
def loadParquetT {κ α μ} (dec : μ → α) (file : List (Batch κ μ)) : List (κ × Option α) :=
  let keys := readKeys file
  let lists := readItems file
  (enumerate keys).map (fun ik =>
    let il_data := lists[ik.1]?
    (ik.2, il_data.map dec))
"""
    seg = "\n".join(segs)
    return ("import LK.Model.CollOps\n/-! GENERATED by translate/py2lean_coll.py on every run of `./check C15`; do not edit.\n"
            f"* `recordBatchesT`, `saveParquetT`, `loadParquetT` ← {rel} ItemListCollection.record_batches, save_parquet (native layout), load_parquet (native layout); source sha256/64 {hashlib.sha256(seg.encode()).hexdigest()[:16]}\n"
            "    - a batch is (key column, list column); reading concatenates the batches' columns; `enc` / `dec` stand for `to_arrow` / `from_arrow` of one list\n-/\n"
            "set_option linter.unusedVariables false\nnamespace LK.Gen.CollC15\nopen LK.CollOps\n\n" + text + "\nend LK.Gen.CollC15\n")

if __name__ == "__main__":
    print(translate(sys.argv[1] if len(sys.argv) > 1 else "/repo/src/lenskit"))
