"""Translate the identifier bookkeeping of `DatasetBuilder.add_entities` (data/builder.py) into Lean (C17, C01) — a strict statement
matcher over the part of the method that follows the schema handling:
  ids = pc.unique(ids).sort(); too few after de-duplication → DataError; the identifiers the table does not hold yet (`pc.is_in`,
  `pc.invert`, `pc.filter`) — all of them when there is no table; known ones with duplicates='error' → DataError; the table with the fresh
  identifiers appended; the index rebuilt from the table's identifier column.
A table is the list of its identifiers (positions are the entity numbers); casts between identifier types keep the values.
"""
import ast, hashlib, os, sys

class Unsupported(Exception): pass
U = ast.unparse

def strip(stmts):
    return [s for s in stmts if not (isinstance(s, ast.Expr) and isinstance(s.value, ast.Constant)) and not isinstance(s, ast.Assert)
            and not (isinstance(s, ast.Expr) and isinstance(s.value, ast.Call) and U(s.value.func).startswith(("log.", "_log.", "self._log.")))]

def expect(stmts, texts, where):
    got = [U(s) for s in stmts]
    same = lambda g, t: g in t if isinstance(t, tuple) else g == t
    if len(got) != len(texts) or not all(same(g, t) for g, t in zip(got, texts)):
        bad = next((g for g, t in zip(got, texts) if not same(g, t)), None) or (got[len(texts)] if len(got) > len(texts) else "a statement is missing")
        raise Unsupported(f"{where}: `{bad[:90]}`")

def translate(src_root):
    rel = "data/builder.py"; src = open(os.path.join(src_root, rel)).read(); mod = ast.parse(src)
    c = next((s for s in mod.body if isinstance(s, ast.ClassDef) and s.name == "DatasetBuilder"), None)
    fn = next((f for f in (c.body if c else []) if isinstance(f, ast.FunctionDef) and f.name == "add_entities" and not any(U(d) == "overload" for d in f.decorator_list)), None)
    if fn is None: raise Unsupported("DatasetBuilder.add_entities not found")
    b = strip(fn.body); texts = [U(s) for s in b]
    if not any(t in ("ids: pa.Array = pa.array(source)", "ids = pa.array(source)") for t in texts) or "table = self._tables[cls]" not in texts: raise Unsupported("add_entities: `ids = pa.array(source)` / `table = self._tables[cls]`")
    starts = [i for i, t in enumerate(texts) if t == "ids = pc.unique(ids).sort()"]
    if len(starts) != 1: raise Unsupported("add_entities: `ids = pc.unique(ids).sort()`")
    pre = b[:starts[0]]
    for s in pre:          # before the segment the table may only be re-typed (a cast keeps the values), the identifiers not touched
        for n in ast.walk(s):
            if isinstance(n, ast.Assign) and any(U(t) == "ids" for t in n.targets) and U(n.value) != "pa.array(source)": raise Unsupported(f"add_entities: `{U(n)[:60]}` before the de-duplication")
            if isinstance(n, ast.Assign) and any(U(t) == "table" for t in n.targets) and U(n.value) not in ("self._tables[cls]", "table.cast(schema)"): raise Unsupported(f"add_entities: `{U(n)[:60]}`")
    seg = b[starts[0]:]
    if len(seg) != 10: raise Unsupported(f"add_entities: {len(seg)} statements from the de-duplication on (expected 10)")
    expect(seg[:2], ["ids = pc.unique(ids).sort()", "n = len(ids)"], "add_entities")
    def raises(s, test):
        return isinstance(s, ast.If) and U(s.test) == test and not s.orelse and isinstance(strip(s.body)[-1], ast.Raise) and U(strip(s.body)[-1].exc).startswith("DataError(") \
            and all(isinstance(x, (ast.Raise, ast.Assign)) for x in strip(s.body))
    if not raises(seg[2], "n < len(source)"): raise Unsupported("add_entities: duplicates within the call are refused")
    if not (isinstance(seg[3], ast.If) and U(seg[3].test) == "not id_type.equals(ids.type)" and [U(x) for x in strip(seg[3].body)] == ["ids = ids.cast(id_type)"] and not seg[3].orelse):
        raise Unsupported("add_entities: the identifier-type cast")
    if not (isinstance(seg[4], ast.If) and U(seg[4].test) == "table is not None"): raise Unsupported("add_entities: known / fresh identifiers")
    expect(strip(seg[4].body), ["col = table.column(id_name)", "is_known = pc.is_in(ids, col)", "fresh_ids = pc.filter(ids, pc.invert(is_known))"], "add_entities: fresh identifiers")
    expect(strip(seg[4].orelse), ["fresh_ids = ids"], "add_entities: no table yet")
    if not raises(seg[5], "len(fresh_ids) < n and duplicates == 'error'"): raise Unsupported("add_entities: re-inserts are refused with duplicates='error'")
    expect(seg[6:], ["new_tbl = pa.table({id_name: fresh_ids})", "if table is None:\n    table = new_tbl\nelse:\n    table = pa.concat_tables([table, new_tbl], promote_options='permissive')",
                     "self._tables[cls] = table", "self._indexes[cls] = pd.Index(table.column(id_name).to_numpy(zero_copy_only=False))"], "add_entities: the table and its index")
    text = """/-- `add_entities`: the identifier table and the identifier index after the call, or the `DataError` -/
def addEntitiesT {ι : Type} [DecidableEq ι] (le : ι → ι → Bool) (table : Option (List ι)) (source : List ι) (duplicatesIsError : Bool) :
    Except Err (List ι × List ι) :=
  let ids := uniqueSorted le source
  let n := ids.length
  if n < source.length then .error .dataError
  else
    let fresh_ids :=
      match table with
      | some col =>
        let is_known := ids.map (fun x => col.contains x)
        LK.ArrayOps.indexMask ids (is_known.map (!·))
      | none => ids
    if fresh_ids.length < n ∧ duplicatesIsError then .error .dataError
    else
      let new_tbl := fresh_ids
      let table :=
        match table with
        | none => new_tbl
        | some t => t ++ new_tbl
      .ok (table, table)
"""
    segsrc = ast.get_source_segment(src, fn)
    return ("import LK.Model.Dataset\nimport LK.Model.ArrayOps\n/-! GENERATED by translate/py2lean_ent.py on every run of `./check C17`; do not edit.\n"
            f"* `addEntitiesT` ← {rel} DatasetBuilder.add_entities (identifier bookkeeping); source sha256/64 {hashlib.sha256(segsrc.encode()).hexdigest()[:16]}\n"
            "    - a table is the list of its identifiers; the result is (the table, the index built from the table's identifier column); casts keep the values\n-/\n"
            "set_option linter.unusedVariables false\nnamespace LK.Gen.EntC17\nopen LK.DS\n\n" + text + "\nend LK.Gen.EntC17\n")

if __name__ == "__main__":
    print(translate(sys.argv[1] if len(sys.argv) > 1 else "/repo/src/lenskit"))
